// C04 — packing files into zips is invisible to clients and recoverable from the zips.
//
// Engine: E1-style call-log crash points ("freeze the devices") + E2 history
// enumeration. For every universe (F1 single zip, F2 three zips, F3 repeated
// chunk, F1+F4 same bytes under two names, a file over a "bytes" schema blob,
// a file whose pack goes through truncate-and-retry) and every upload order,
// the history  uploads ; re-upload of the file blobs ; (remove t ; upload t)
// for every logical blob t  is run on the real blobpacked code over harness
// leaf stores. Every mutating lower-layer call of every step is a crash point:
// the run is repeated with that call and all later ones refused, the instance
// is thrown away and a new one is started over the same devices in each
// recovery mode; the full oracle runs after the restart and after every step
// of the continuation (the crashed step is retried, the rest of the history
// follows).
package c04

import (
	"bytes"
	"fmt"
	"os"
	"strings"
	"testing"
	"time"

	"perkeep.org/pkg/blob"
	"perkeep.org/pkg/blobserver"

	"verif/hs"
	"verif/vk"
)

type step struct {
	remove bool
	b      hs.Blob
}

func (s step) label() string {
	if s.remove {
		return "R." + s.b.Name
	}
	return "U." + s.b.Name
}

// opKind is the step as it appears in signatures: U/R + kind of blob.
func (sc *scen) opKind(s step) string {
	k := "chunk"
	if sc.isFile(s.b) {
		k = "file"
	} else if strings.HasPrefix(s.b.Name, "by") {
		k = "bytes"
	}
	if s.remove {
		return "R." + k
	}
	return "U." + k
}

func labels(h []step) string {
	l := make([]string, len(h))
	for i, s := range h {
		l[i] = s.label()
	}
	return strings.Join(l, " ")
}

// Tail kinds, carried as the last (negative) element of an upload sequence.
const (
	tailBulk  = -1 // remove every blob, then upload every blob again
	tailPairs = -2 // per blob: remove it, upload it again
)

// history builds the full history for one upload sequence (indices into
// sc.blobs, duplicates allowed, last element = tail kind): the uploads, a
// second upload of every file blob, then the removal tail.
func (sc *scen) history(seq []int) []step {
	var h []step
	tail := tailBulk
	for _, i := range seq {
		if i < 0 {
			tail = i
			continue
		}
		h = append(h, step{false, sc.blobs[i]})
	}
	for _, b := range sc.blobs {
		if sc.isFile(b) {
			h = append(h, step{false, b})
		}
	}
	if tail == tailPairs {
		for _, b := range sc.blobs {
			h = append(h, step{true, b}, step{false, b})
		}
		return h
	}
	for _, b := range sc.blobs {
		h = append(h, step{true, b})
	}
	for _, b := range sc.blobs {
		h = append(h, step{false, b})
	}
	return h
}

func seqNames(sc *scen, seq []int) []string {
	out := make([]string, len(seq))
	for i, x := range seq {
		switch x {
		case tailBulk:
			out[i] = "tail:bulk"
		case tailPairs:
			out[i] = "tail:pairs"
		default:
			out[i] = sc.blobs[x].Name
		}
	}
	return out
}

func parseSeq(sc *scen, names []any) []int {
	var seq []int
	for _, o := range names {
		switch o.(string) {
		case "tail:bulk":
			seq = append(seq, tailBulk)
		case "tail:pairs":
			seq = append(seq, tailPairs)
		default:
			for i, b := range sc.blobs {
				if b.Name == o.(string) {
					seq = append(seq, i)
				}
			}
		}
	}
	return seq
}

// applyStep performs one client operation; panics of perkeep code are returned as text.
func applyStep(sto blobserver.Storage, st step) (err error, panicked string) {
	w := getWorld()
	w.largeInOp, w.runaway = 0, false
	defer func() {
		if e := recover(); e != nil {
			panicked = normPanic(e)
		}
	}()
	if st.remove {
		return sto.RemoveBlobs(ctx, []blob.Ref{st.b.Ref}), ""
	}
	sr, err := sto.ReceiveBlob(ctx, st.b.Ref, bytes.NewReader(st.b.Data))
	if err == nil && sr != st.b.Sized() {
		err = fmt.Errorf("ReceiveBlob returned %v, want %v", sr, st.b.Sized())
	}
	return err, ""
}

// stepAndCheck runs one step on a healthy world and applies the oracle.
// "still served after removal" findings are returned in soft (the execution goes on with the observed state).
func stepAndCheck(sc *scen, w *world, sto blobserver.Storage, st step, ref *hs.RefMap) (obs *observation, hard *finding, soft *finding) {
	err, p := applyStep(sto, st)
	if p != "" {
		return nil, fnd("panic|"+p, "%s panicked: %s", st.label(), p), nil
	}
	if w.runaway {
		return nil, fnd("pack-does-not-terminate", "%s stored more than %d zips in large and was still going (%d blobs in large, the harness then refused further zips)", st.label(), maxZipsPerOp, w.large.Len()), nil
	}
	if err != nil {
		return nil, fnd("op-fails", "%s failed although no lower-layer call failed: %v", st.label(), err), nil
	}
	if st.remove {
		w.quiet = true
		still, f := probe(sto, st.b)
		w.quiet = false
		if f != nil {
			return nil, f, nil
		}
		if still {
			_, inSmall := w.small.Get(st.b.Ref)
			_, inMeta := w.kv.Snapshot()["b:"+st.b.Ref.String()]
			class := "cause-unknown"
			switch {
			case inSmall && !inMeta:
				class = "loose-copy-left-in-small"
			case inMeta:
				class = "meta-row-kept"
			}
			soft = fnd("removed-blob-still-served|"+class, "RemoveBlobs(%s) returned success but the blob is still fetched, stat-ed and enumerated (copy in small: %v, b: row in meta: %v)", st.b.Name, inSmall, inMeta)
			ref.Put(st.b)
		} else {
			ref.Del(st.b)
		}
	} else {
		ref.Put(st.b)
	}
	obs, hard = evaluate(sc, w, sto, ref, nil, false)
	return obs, hard, soft
}

// violation is a finding placed in its case.
type violation struct {
	sig, what string
	replay    map[string]any
}

type explorer struct {
	res       *vk.Result
	deadline  time.Time
	confirmed map[string]int
	work      int // running work item counter (identical in every shard)
	states    map[string]bool
}

func sig(sc *scen, where, class string) string {
	return "C04|" + sc.name + "|" + where + "|" + class
}

type healthyInfo struct {
	hist   []step
	n      []int      // mutating lower-layer calls per step
	labels [][]string // their labels
	pre    []string   // state key before each step (index len(hist) = final state)
	fail   *violation
}

// healthyRun runs the whole history without crash. With oracle: evaluate after
// every step and, from inside the hooks, before every mutating lower-layer
// call (the live intermediate states of a pack).
func (x *explorer) healthyRun(sc *scen, seq []int, oracle bool, vsc *vk.Scenario) *healthyInfo {
	w := getWorld()
	w.reset(sc.maxZip)
	hist := sc.history(seq)
	info := &healthyInfo{hist: hist}
	rep := map[string]any{"scenario": sc.name, "order": seqNames(sc, seq), "healthy": true}
	fail := func(where string, f *finding) *healthyInfo {
		info.fail = &violation{sig(sc, where, f.class), fmt.Sprintf("%s, history [%s], no crash, %s: %s", sc.name, labels(hist), where, f.what), rep}
		return info
	}
	sto, err := w.open(modeNone, true)
	if err != nil {
		return fail("healthy|start", fnd("start-fails", "%v", err))
	}
	ref := hs.NewRefMap()
	for i, st := range hist {
		info.pre = append(info.pre, vk.Hash(w.key(), ref.Key()))
		var liveFail *finding
		liveAt := ""
		w.arm(-1)
		// Live observation only for uploads: ReceiveBlob and the pack run in the
		// calling goroutine, so the devices are quiescent inside a hook. RemoveBlobs
		// may write from several goroutines; a single-blob removal has one write,
		// whose "before" state is the previous step's.
		if oracle && !st.remove {
			w.observe = func(k int, label string) {
				if liveFail != nil {
					return
				}
				b := st.b
				obs, f := evaluate(sc, w, sto, ref.Clone(), &b, false)
				vsc.Transitions++
				if f != nil {
					liveFail, liveAt = f, label
					return
				}
				vsc.Outcome("live|" + st.label() + "|" + label + "|" + obs.key())
			}
		}
		var obs *observation
		var hard, soft *finding
		if oracle {
			obs, hard, soft = stepAndCheck(sc, w, sto, st, ref)
			vsc.Transitions++
		} else {
			err, p := applyStep(sto, st)
			if err != nil || p != "" {
				hard = fnd("op-fails", "%s: %v %s", st.label(), err, p)
			}
			if st.remove {
				ref.Del(st.b)
			} else {
				ref.Put(st.b)
			}
		}
		info.n = append(info.n, w.n)
		info.labels = append(info.labels, w.labels)
		w.disarm()
		if liveFail != nil {
			liveFail.what = "before lower-layer write " + liveAt + ": " + liveFail.what
			return fail("live|"+sc.opKind(st), liveFail)
		}
		if hard != nil {
			return fail("healthy|"+sc.opKind(st), hard)
		}
		if soft != nil {
			return fail("healthy|"+sc.opKind(st), soft)
		}
		if obs != nil {
			vsc.Outcome(fmt.Sprintf("healthy|%d|%s|%s", i, st.label(), obs.key()))
			if i == len(hist)-1 {
				for _, s := range obs.whole {
					if s == "served" {
						wholeServed++
					}
				}
			}
		}
	}
	info.pre = append(info.pre, vk.Hash(w.key(), ref.Key()))
	return info
}

var wholeServed, resurrections, crashRefusedNothing int64

// plan is what happens after a device freeze: a restart in Mode; optionally that
// restart's own recovery is hit by a freeze at its RecK-th write and the store
// is then started once more in Mode2.
type plan struct {
	Mode  restartMode
	RecK  int
	Mode2 restartMode
}

func plain(m restartMode) plan { return plan{Mode: m, RecK: -1} }

func (p plan) String() string {
	if p.RecK < 0 {
		return p.Mode.String()
	}
	return fmt.Sprintf("%s!%d>%s", p.Mode, p.RecK, p.Mode2)
}

// class is the part of the plan that goes into signatures.
func (p plan) class() string {
	if p.RecK < 0 {
		return p.Mode.String()
	}
	return fmt.Sprintf("%s-interrupted-then-%s", p.Mode, p.Mode2)
}

func (p plan) fromZips() bool { return p.Mode.fromZips() || (p.RecK >= 0 && p.Mode2.fromZips()) }

func parsePlan(s string) (plan, error) {
	mode := func(n string) (restartMode, error) {
		for i, m := range modeNames {
			if m == n {
				return restartMode(i), nil
			}
		}
		return 0, fmt.Errorf("unknown restart mode %q", n)
	}
	if i := strings.IndexByte(s, '!'); i >= 0 {
		j := strings.IndexByte(s, '>')
		if j < i {
			return plan{}, fmt.Errorf("bad plan %q", s)
		}
		m1, err := mode(s[:i])
		if err != nil {
			return plan{}, err
		}
		var r int
		if _, err := fmt.Sscanf(s[i+1:j], "%d", &r); err != nil {
			return plan{}, err
		}
		m2, err := mode(s[j+1:])
		return plan{m1, r, m2}, err
	}
	m, err := mode(s)
	return plain(m), err
}

// crashPt: the K-th mutating lower-layer call of history step Step and all
// later ones are refused, then the restart plan runs and the client retries
// from Step. Step == len(history): nothing in flight, restart after the history.
type crashPt struct {
	Step int
	K    int
	Plan plan
}

func crashesJSON(pre []crashPt, step, k int, p string) []map[string]any {
	var out []map[string]any
	for _, c := range pre {
		out = append(out, map[string]any{"step": c.Step, "k": c.K, "restart": c.Plan.String()})
	}
	return append(out, map[string]any{"step": step, "k": k, "restart": p})
}

type planResult struct {
	plan    plan
	viols   []*violation
	recN    int      // lower-layer writes done by the (first) restart of the plan
	contN   []int    // lower-layer writes of continuation step Step+idx (nil if the continuation was cut short)
	contPre []string // state key before each continuation step
}

// restart runs a plan on the current device state.
func (w *world) restart(p plan) (sto blobserver.Storage, recN int, err error) {
	if p.Mode == modeWipedFast {
		w.kv.Wipe()
	}
	w.arm(p.RecK)
	sto, err = w.open(p.Mode, false)
	recN = w.n
	w.disarm()
	if p.RecK >= 0 {
		// whatever the interrupted start returned, that process is gone
		sto, err = w.open(p.Mode2, true)
	}
	return sto, recN, err
}

// stepQuiet runs one step after a restart without the full oracle, keeping ref at the observed state.
func stepQuiet(w *world, sto blobserver.Storage, st step, ref *hs.RefMap) error {
	if err, p := applyStep(sto, st); err != nil || p != "" {
		return fmt.Errorf("%s: %v %s", st.label(), err, p)
	}
	if !st.remove {
		ref.Put(st.b)
		return nil
	}
	w.quiet = true
	still, f := probe(sto, st.b)
	w.quiet = false
	if f != nil {
		return fmt.Errorf("%s", f.what)
	}
	if still {
		ref.Put(st.b)
	} else {
		ref.Del(st.b)
	}
	return nil
}

// runCase executes one history with device freezes: the crashes of pre (each
// followed by its restart plan and the retry of its step), then a freeze at
// the k-th write of step (step == len(history): none) followed by each of the
// plans, evaluated with the full oracle after the restart and after every
// step of the continuation to the end of the history.
func (x *explorer) runCase(sc *scen, seq []int, pre []crashPt, step, k int, plans []plan, vsc *vk.Scenario) []*planResult {
	w := getWorld()
	w.reset(sc.maxZip)
	hist := sc.history(seq)
	crashWhere := "restart-after-history"
	mk := func(p string, where string, f *finding) *violation {
		rep := map[string]any{"scenario": sc.name, "order": seqNames(sc, seq), "crashes": crashesJSON(pre, step, k, p)}
		earlier := ""
		for _, c := range pre {
			earlier += fmt.Sprintf("earlier crash in %s at write %d + restart %s; ", hist[c.Step].label(), c.K, c.Plan)
		}
		return &violation{sig(sc, where, f.class), fmt.Sprintf("%s, history [%s], %scrash in %s, restart %s, %s: %s", sc.name, labels(hist), earlier, crashWhere, p, where, f.what), rep}
	}
	sto, err := w.open(modeNone, true)
	if err != nil {
		return []*planResult{{viols: []*violation{mk("", "start", fnd("start-fails", "%v", err))}}}
	}
	ref := hs.NewRefMap()
	j := 0
	freeze := func(c crashPt) *hs.Blob {
		if c.Step >= len(hist) {
			return nil
		}
		w.arm(c.K)
		applyStep(sto, hist[c.Step]) // result irrelevant: the process is dead
		if !w.crashed {
			crashRefusedNothing++
		}
		crashWhere = fmt.Sprintf("%s/k%d-%s", hist[c.Step].label(), c.K, w.refused)
		w.disarm()
		b := hist[c.Step].b
		return &b
	}
	advance := func(to int) bool {
		for ; j < to; j++ {
			if err := stepQuiet(w, sto, hist[j], ref); err != nil {
				if len(pre) == 0 {
					x.res.EngineError("%s [%s]: prefix step fails in a crash case but not in the healthy run: %v", sc.name, labels(hist), err)
				}
				return false
			}
		}
		return true
	}
	for _, c := range pre {
		if !advance(c.Step) {
			return nil
		}
		inflight := freeze(c)
		sto = nil
		if sto, _, err = w.restart(c.Plan); err != nil {
			return nil // reported by the case one level up
		}
		if _, f := evaluate(sc, w, sto, ref, inflight, c.Plan.fromZips()); f != nil {
			return nil
		}
		j = c.Step
	}
	if !advance(step) {
		return nil
	}
	inflight := freeze(crashPt{Step: step, K: k})
	infl := "none"
	if inflight != nil {
		infl = sc.opKind(hist[step])
	}
	sto = nil
	crashed := w.snapshot()
	refAtCrash := ref
	stateKey := vk.Hash(w.key())
	if !x.states[stateKey] {
		x.states[stateKey] = true
		vsc.States++
	}
	var out []*planResult
	var wholeNone []string
	for _, p := range plans {
		w.restore(crashed)
		vsc.Executions++
		pr := &planResult{plan: p}
		out = append(out, pr)
		okey := fmt.Sprintf("%d|%s|%s", len(pre), crashWhere, p.class())
		fail := func(where string, f *finding) {
			pr.viols = append(pr.viols, mk(p.String(), where, f))
			okey += "|" + f.class
		}
		func() {
			sto2, recN, err := w.restart(p)
			pr.recN = recN
			if err != nil {
				fail("after-restart:"+p.class()+"|inflight-"+infl, fnd(restartClass(err), "restart %s fails: %v", p, err))
				return
			}
			ref := refAtCrash.Clone()
			obs, f := evaluate(sc, w, sto2, ref, inflight, p.fromZips())
			vsc.Transitions++
			if f != nil {
				fail("after-restart:"+p.class()+"|inflight-"+infl, f)
				return
			}
			resurrections += int64(obs.resurrected)
			okey += "|" + obs.key()
			if p == plain(modeNone) {
				wholeNone = obs.whole
			} else if wholeNone != nil {
				for fi, s := range wholeNone {
					if s == "served" && obs.whole[fi] != "served" {
						fail("after-restart:"+p.class()+"|inflight-"+infl, fnd("wholeref-lost-by-recovery", "whole-file read of %s was served with the surviving index but is not found after rebuilding the index from the zips", sc.files[fi].fileName))
						return
					}
				}
			}
			// continuation: the client retries the crashed step, the rest of the history follows
			var contN []int
			var contPre []string
			wholeEnd := obs.whole
			for j := step; j < len(hist); j++ {
				contPre = append(contPre, vk.Hash(w.key(), ref.Key()))
				w.arm(-1)
				obs, hard, soft := stepAndCheck(sc, w, sto2, hist[j], ref)
				contN = append(contN, w.n)
				w.disarm()
				vsc.Transitions++
				where := "continue:" + p.class() + "|" + sc.opKind(hist[j])
				if soft != nil {
					fail(where, soft)
				}
				if hard != nil {
					fail(where, hard)
					return
				}
				if j == len(hist)-1 {
					okey += "|end:" + obs.key()
				}
				wholeEnd = obs.whole
			}
			pr.contN, pr.contPre = contN, contPre
			// at the end of the history the zips alone must still rebuild the index
			if step < len(hist) {
				sto3, err := w.open(modeFull, true)
				if err != nil {
					fail("final-recovery:"+p.class()+"|full", fnd(restartClass(err), "after the continuation completed, a restart with FullRecovery fails: %v", err))
					return
				}
				obs, f := evaluate(sc, w, sto3, ref, nil, true)
				vsc.Transitions++
				if f != nil {
					fail("final-recovery:"+p.class()+"|full", f)
					return
				}
				for fi, s := range wholeEnd {
					if s == "served" && obs.whole[fi] != "served" {
						fail("final-recovery:"+p.class()+"|full", fnd("wholeref-lost-by-recovery", "whole-file read of %s was served at the end of the history but is not found after rebuilding the index from the zips", sc.files[fi].fileName))
						return
					}
				}
				resurrections += int64(obs.resurrected)
				okey += "|rec:" + obs.key()
			}
		}()
		vsc.Outcome(okey)
	}
	return out
}

// restartClass separates a start-up that returns an error from one that panics.
func restartClass(err error) string {
	if t := err.Error(); strings.HasPrefix(t, "panic: ") {
		return "restart-panics|" + normPanic(strings.TrimPrefix(t, "panic: "))
	}
	return "restart-fails"
}

func allViols(prs []*planResult) []*violation {
	var out []*violation
	for _, pr := range prs {
		out = append(out, pr.viols...)
	}
	return out
}

func plainPlans() []plan {
	return []plan{plain(modeNone), plain(modeFast), plain(modeFull), plain(modeWipedFast)}
}

// report confirms (4 more identical runs of the failing plans) the first
// occurrence of a signature and records violations.
func (x *explorer) report(vsc *vk.Scenario, first []*violation, again func(plans []plan) []*violation) {
	if len(first) == 0 {
		return
	}
	plans := []plan{plain(modeNone)} // the whole-file comparison needs the plain restart as baseline
	need := false
	for _, v := range first {
		if x.confirmed[v.sig] >= 1 {
			continue
		}
		need = true
		if cs, ok := v.replay["crashes"].([]map[string]any); ok {
			if p, err := parsePlan(cs[len(cs)-1]["restart"].(string)); err == nil && p != plain(modeNone) {
				dup := false
				for _, q := range plans {
					dup = dup || q == p
				}
				if !dup {
					plans = append(plans, p)
				}
			}
		}
	}
	if need {
		for r := 0; r < 4; r++ {
			have := map[string]bool{}
			for _, v := range again(plans) {
				have[v.sig] = true
			}
			for _, v := range first {
				if x.confirmed[v.sig] < 1 && !have[v.sig] {
					x.res.EngineError("violation %s does not reproduce (run %d)", v.sig, r+2)
					vsc.Exhaustive = false
					return
				}
			}
		}
	}
	for _, v := range first {
		x.confirmed[v.sig]++
		x.res.Violate(vsc, v.sig, v.what, v.replay)
	}
}

func (x *explorer) explore(sc *scen, seqs [][]int) {
	vsc := x.res.Scenario(sc.name)
	deep := ""
	if sc.deep {
		deep = "; second level: after every first-level (crash, restart) a second crash at every write of every continuation step x every restart mode, and a crash at every write of the recovery itself followed by a restart in fast or full recovery"
	}
	vsc.Bound = fmt.Sprintf("%d upload sequences over %d logical blobs (%s); history = uploads, second upload of every file blob, then the removal tail (remove every blob, upload every blob again; thorough also: per blob remove + upload again); crash at every mutating lower-layer call of every step (steps with identical device state, acknowledged set and remaining history evaluated once) and after the complete history; restart modes %v; oracle after restart and after every continuation step, and live before every lower-layer write of the healthy run%s", len(seqs), len(sc.blobs), sc.note, modeNames, deep)
	seen := map[string]bool{}
	seen2 := map[string]bool{}
	scratch := &vk.Scenario{}
	classes, points, points2 := 0, 0, 0
	for oi, seq := range seqs {
		if time.Now().After(x.deadline) {
			vsc.Exhaustive = false
			vsc.Note = fmt.Sprintf("time budget reached after %d of %d upload sequences", oi, len(seqs))
			return
		}
		mineHealthy := vk.Mine(x.work)
		x.work++
		info := x.healthyRun(sc, seq, mineHealthy, vsc)
		if info.fail != nil {
			if mineHealthy {
				x.report(vsc, []*violation{info.fail}, func([]plan) []*violation {
					if i2 := x.healthyRun(sc, seq, true, scratch); i2.fail != nil {
						return []*violation{i2.fail}
					}
					return nil
				})
			}
			continue // crash points of a history that already fails without crash are not explored
		}
		if mineHealthy {
			vsc.Executions++
			if len(vsc.Samples) < 2 {
				var calls []string
				for i, l := range info.labels {
					if len(l) > 0 {
						calls = append(calls, info.hist[i].label()+":["+strings.Join(l, " ")+"]")
					}
				}
				vsc.Sample(map[string]any{"history": labels(info.hist), "lower_layer_writes_per_step": calls})
			}
		}
		hist := info.hist
		for i := 0; i <= len(hist); i++ {
			ckey := info.pre[i] + "|" + labels(hist[min(i, len(hist)):])
			if seen[ckey] {
				continue
			}
			seen[ckey] = true
			classes++
			nk := 1
			if i < len(hist) {
				nk = info.n[i]
			}
			for k := 0; k < nk; k++ {
				points++
				mine := vk.Mine(x.work)
				x.work++
				if !mine {
					continue
				}
				if time.Now().After(x.deadline) {
					vsc.Exhaustive = false
					vsc.Note = "time budget reached inside the crash points"
					return
				}
				prs := x.runCase(sc, seq, nil, i, k, plainPlans(), vsc)
				x.report(vsc, allViols(prs), func(plans []plan) []*violation {
					return allViols(x.runCase(sc, seq, nil, i, k, plans, scratch))
				})
				if !sc.deep {
					continue
				}
				// crash inside the recovery itself
				var rplans []plan
				for _, pr := range prs {
					if pr.plan.Mode != modeNone && len(pr.viols) == 0 {
						for r := 0; r < pr.recN; r++ {
							rplans = append(rplans, plan{pr.plan.Mode, r, modeFast}, plan{pr.plan.Mode, r, modeFull})
						}
					}
				}
				if len(rplans) > 0 {
					points2 += len(rplans)
					x.report(vsc, allViols(x.runCase(sc, seq, nil, i, k, rplans, vsc)), func(plans []plan) []*violation {
						return allViols(x.runCase(sc, seq, nil, i, k, plans, scratch))
					})
				}
				// second crash during the continuation
				for _, pr := range prs {
					if pr.contN == nil {
						continue
					}
					pre := []crashPt{{i, k, pr.plan}}
					for j2 := i; j2 <= len(hist); j2++ {
						var ckey string
						n2 := 1
						if j2 < len(hist) {
							ckey = pr.contPre[j2-i] + "|" + labels(hist[j2:])
							n2 = pr.contN[j2-i]
						} else {
							continue // state after the complete history: same as a first-level restart-after-history of this state class
						}
						if seen[ckey] || seen2[ckey] {
							continue
						}
						seen2[ckey] = true
						for k2 := 0; k2 < n2; k2++ {
							if time.Now().After(x.deadline) {
								vsc.Exhaustive = false
								vsc.Note = "time budget reached inside the second-level crash points"
								return
							}
							points2++
							x.report(vsc, allViols(x.runCase(sc, seq, pre, j2, k2, plainPlans(), vsc)), func(plans []plan) []*violation {
								return allViols(x.runCase(sc, seq, pre, j2, k2, plans, scratch))
							})
						}
					}
				}
			}
		}
	}
	vsc.Nontrivial += int64(points2)
	vsc.Note = strings.TrimSpace(fmt.Sprintf("%s %d distinct (state, step, remaining history) classes with %d first-level crash points (all shards together); second-level crash points of this shard are counted in nontrivial", vsc.Note, classes, points))
}

func perms(n int) [][]int {
	var out [][]int
	var rec func(cur []int, used int)
	rec = func(cur []int, used int) {
		if len(cur) == n {
			out = append(out, append([]int{}, cur...))
			return
		}
		for i := 0; i < n; i++ {
			if used&(1<<i) == 0 {
				rec(append(cur, i), used|1<<i)
			}
		}
	}
	rec(nil, 0)
	return out
}

// surjections returns all sequences of length n+1 over n items that contain every item (one duplicate somewhere).
func surjections(n int) [][]int {
	var out [][]int
	var rec func(cur []int)
	rec = func(cur []int) {
		if len(cur) == n+1 {
			m := 0
			for _, c := range cur {
				m |= 1 << c
			}
			if m == 1<<n-1 {
				out = append(out, append([]int{}, cur...))
			}
			return
		}
		for i := 0; i < n; i++ {
			rec(append(cur, i))
		}
	}
	rec(nil)
	return out
}

// sequences: all permutations of the blobs (thorough, universes of <= 4
// blobs: also every sequence with one duplicate), each with the bulk tail;
// thorough: also with the pairs tail.
func (sc *scen) sequences() [][]int {
	base := sc.fixedOrders
	if base != nil && !vk.Thorough() {
		base = base[:1] // quick: only the first of the fixed orders of the 9-blob universes
	}
	if base == nil {
		base = perms(len(sc.blobs))
		if vk.Thorough() && len(sc.blobs) <= 4 {
			base = append(base, surjections(len(sc.blobs))...)
		}
	}
	var out [][]int
	for _, b := range base {
		out = append(out, append(append([]int{}, b...), tailBulk))
	}
	if vk.Thorough() {
		for _, b := range base {
			out = append(out, append(append([]int{}, b...), tailPairs))
		}
	}
	return out
}

func scenarios() []*scen {
	f1 := mkFile("f1", "f1.bin", cA, cB)
	f2 := mkFile("f2", "f2.bin", cA, cB, cC)
	f3 := mkFile("f3", "f3.bin", cA, cA)
	f4 := mkFile("f4", "f4.bin", cA, cB)
	by := bytesBlob("by", cA, cB)
	f5 := fileOverBytes("f5", "f5.bin", by, cA, cB)
	out := []*scen{
		{name: "F1-one-zip", blobs: []hs.Blob{cA, cB, f1.blob}, files: []fileSpec{f1}, note: "2 x 256 KiB chunks, default zip limit"},
		{name: "F2-three-zips", blobs: []hs.Blob{cA, cB, cC, f2.blob}, files: []fileSpec{f2}, maxZip: chunkSize + 40<<10, note: "3 x 256 KiB chunks, zip limit 296 KiB: one chunk per zip"},
		{name: "F3-repeated-chunk", blobs: []hs.Blob{cA, f3.blob}, files: []fileSpec{f3}, note: "the same 256 KiB chunk twice, default zip limit"},
		{name: "F3-repeated-chunk-two-zips", blobs: []hs.Blob{cA, f3.blob}, files: []fileSpec{f3}, maxZip: chunkSize + 40<<10, note: "the same 256 KiB chunk twice, one chunk per zip"},
		{name: "F1+F4-same-bytes-two-names", blobs: []hs.Blob{cA, cB, f1.blob, f4.blob}, files: []fileSpec{f1, f4}, note: "two file blobs over the same 2 chunks"},
		{name: "F5-file-over-bytes-blob", blobs: []hs.Blob{cA, cB, by, f5.blob}, files: []fileSpec{f5}, note: "file -> bytes schema blob -> 2 chunks"},
	}
	for _, sc := range out {
		sc.deep = vk.Thorough() && !strings.HasPrefix(sc.name, "F5")
	}
	// the same bytes as F2 cut into different chunks (another client, another chunker)
	content := append(append(append([]byte{}, cA.Data...), cB.Data...), cC.Data...)
	h := chunkSize / 2
	x1, x2, x3, x4 := hs.Mk("x1", content[:h], ""), hs.Mk("x2", content[h:h+chunkSize], ""), hs.Mk("x3", content[h+chunkSize:h+2*chunkSize], ""), hs.Mk("x4", content[h+2*chunkSize:], "")
	f7 := mkFile("f7", "f7.bin", x1, x2, x3, x4)
	out = append(out, &scen{name: "F2+F7-same-bytes-different-chunks", blobs: []hs.Blob{cA, cB, cC, f2.blob, x1, x2, x3, x4, f7.blob}, files: []fileSpec{f2, f7},
		maxZip: chunkSize + 40<<10, fixedOrders: [][]int{{0, 1, 2, 3, 4, 5, 6, 7, 8}, {4, 5, 6, 7, 8, 0, 1, 2, 3}},
		note: "F2 (3 x 256 KiB) and the same 768 KiB cut as 128+256+256+128 KiB under another name, zip limit 296 KiB; orders: all of F2 then all of F7; thorough also the reverse"})
	// a multi-zip file whose chunks hang under nested "bytes" blobs: one chunk per zip, so the
	// second bytes blob has all its chunks in zips 2 and 3 and is itself written into zip 2 only
	q := smallChunks(4, 128<<10)
	for i := range q {
		q[i].Name = fmt.Sprintf("q%d", i+1)
	}
	by1, by2 := bytesBlob("by1", q[0], q[1]), bytesBlob("by2", q[2], q[3])
	f9 := fileOverGroups("f9", "f9.bin", bytesGroup{by1, q[:2]}, bytesGroup{by2, q[2:]})
	out = append(out, &scen{name: "F9-nested-bytes-four-zips", blobs: []hs.Blob{q[0], q[1], q[2], q[3], by1, by2, f9.blob}, files: []fileSpec{f9},
		maxZip: 128<<10 + 40<<10, fixedOrders: [][]int{{0, 1, 2, 3, 4, 5, 6}, {6, 5, 4, 3, 2, 1, 0}},
		note: "file -> [bytes(q1,q2), bytes(q3,q4)], 4 x 128 KiB chunks, zip limit 168 KiB: one chunk per zip, the second bytes blob and its chunks only in zips 2 and 3; orders: chunks, bytes blobs, file; thorough also the reverse"})
	// a file spread over 12 zips: the wholeRef rows "w:<ref>:<n>" of parts 10 and 11 sort
	// between parts 1 and 2 in the meta index
	tw := smallChunks(12, 48<<10)
	for i := range tw {
		tw[i].Name = fmt.Sprintf("t%02d", i+1)
	}
	f10 := mkFile("f10", "f10.bin", tw...)
	order := make([]int, 13)
	for i := range order {
		order[i] = i
	}
	out = append(out, &scen{name: "F10-twelve-zips", blobs: append(append([]hs.Blob{}, tw...), f10.blob), files: []fileSpec{f10},
		maxZip: 48<<10 + 40<<10, fixedOrders: [][]int{order},
		note: "12 x 48 KiB chunks, zip limit 88 KiB: one chunk per zip, 12 zips; order: chunks, file"})
	// a legal but unusual schema: the middle part uses only a prefix of its blob
	f11 := filePrefixPart("f11", "f11.bin", cA, cB, 200<<10, cC)
	out = append(out, &scen{name: "F11-part-uses-prefix-of-blob", blobs: []hs.Blob{cA, cB, cC, f11.blob}, files: []fileSpec{f11},
		fixedOrders: [][]int{{0, 1, 2, 3}, {3, 2, 1, 0}},
		note:        "file = chunk A + the first 200 KiB of chunk B + chunk C (part size smaller than the blob); orders: chunks then file; thorough also the reverse"})
	return out
}

// filePrefixPart: file = a ++ b[:n] ++ c, the middle part declaring size n < len(b).
func filePrefixPart(name, fileName string, a, b hs.Blob, n int, c hs.Blob) fileSpec {
	f := fileSpec{fileName: fileName}
	f.content = append(append(append([]byte{}, a.Data...), b.Data[:n]...), c.Data...)
	f.bounds = []int{len(a.Data), len(a.Data) + n}
	j := fmt.Sprintf("{\"camliVersion\": 1,\n  \"camliType\": \"file\",\n  \"fileName\": %q,\n  \"parts\": [\n    {\"blobRef\": %q, \"size\": %d},\n    {\"blobRef\": %q, \"size\": %d},\n    {\"blobRef\": %q, \"size\": %d}\n  ],\n  \"unixMtime\": \"2014-05-13T16:53:20Z\"\n}",
		fileName, a.Ref.String(), len(a.Data), b.Ref.String(), n, c.Ref.String(), len(c.Data))
	f.blob = hs.Mk(name, []byte(j), "")
	f.wholeRef = blob.RefFromBytes(f.content)
	return f
}

func TestCheck(t *testing.T) {
	defer vk.Cleanup()
	res := vk.New("C04")
	res.Rule = "call-log crash points x history enumeration on the real blobpacked code: evaluations = (history, crashed step, crash point, restart mode) executions plus healthy histories; a case is distinct/non-trivial when its (crash site, restart mode, visible blobs, whole-file read status, resurrected count, zip count, end state, verdict) differs; states = distinct crashed device states, transitions = oracle evaluations"
	res.Assumptions = []string{
		"crash model: the devices (small, large, meta KV) stop accepting writes at a call boundary; each lower-layer call (one blob receive, one blob removal, one KV set/delete/batch) is atomic",
		"blobpacked keeps no state outside small/large/meta (steps with identical device state, acknowledged set and remaining history are explored once)",
		"harness leaf store hs.Mem, hs.KV and the reference map are correct; one client, no concurrent operations",
	}
	x := &explorer{res: res, deadline: vk.Deadline(), confirmed: map[string]int{}, states: map[string]bool{}}
	scs := scenarios()
	if rp, ok := vk.ReplayFile(); ok {
		x.replay(scs, rp)
		res.Write()
		return
	}
	only := os.Getenv("VERIF_ONLY")
	for _, sc := range scs {
		if only == "" || only == sc.name {
			x.explore(sc, sc.sequences())
		}
	}
	if only == "" || strings.HasPrefix(only, "F6") || strings.HasPrefix(only, "zip-limit-scan") {
		x.truncation()
	}
	g := res.Scenario("count: whole-file reads served at the end of healthy histories")
	g.Bound = "vacuity guard for the OpenWholeRef oracle; executions = number of (history, file) pairs whose whole-file read was served after the complete healthy history"
	g.Executions = wholeServed
	if wholeServed > 0 {
		g.Outcome("served")
	}
	g = res.Scenario("count: removed packed blob visible again after a recovery from the zips")
	g.Bound = "stated leniency (TODO in reindex: removals are only recorded in the index); executions = number of (crash case, restart mode, blob) triples in which it was observed; not flagged"
	g.Executions = resurrections
	if resurrections > 0 {
		g.Outcome("observed")
	}
	if crashRefusedNothing > 0 {
		res.EngineError("%d crash points refused no call (call numbering not deterministic)", crashRefusedNothing)
	}
	res.Write()
}

func (x *explorer) replay(scs []*scen, rp map[string]any) {
	r, _ := rp["replay"].(map[string]any)
	name, _ := r["scenario"].(string)
	wantSig, _ := rp["signature"].(string)
	for _, sp := range scanSpecs() {
		if name == sp.name {
			vsc := x.res.Scenario(name)
			if _, v := x.scanOne(sp, int(r["limit"].(float64)), vsc); v != nil {
				x.res.Violate(vsc, v.sig, v.what, v.replay)
			}
			return
		}
	}
	for _, sc := range append(scs, truncScens()...) {
		if sc.name != name {
			continue
		}
		seq := parseSeq(sc, r["order"].([]any))
		vsc := x.res.Scenario(sc.name)
		var vs []*violation
		if h, _ := r["healthy"].(bool); h {
			if info := x.healthyRun(sc, seq, true, vsc); info.fail != nil {
				vs = append(vs, info.fail)
			}
		} else {
			var cps []crashPt
			for _, c := range r["crashes"].([]any) {
				cm := c.(map[string]any)
				p, err := parsePlan(cm["restart"].(string))
				if err != nil {
					x.res.EngineError("replay: %v", err)
					return
				}
				cps = append(cps, crashPt{int(cm["step"].(float64)), int(cm["k"].(float64)), p})
			}
			last := cps[len(cps)-1]
			plans := []plan{plain(modeNone)}
			if last.Plan != plain(modeNone) {
				plans = append(plans, last.Plan)
			}
			vs = allViols(x.runCase(sc, seq, cps[:len(cps)-1], last.Step, last.K, plans, vsc))
		}
		for _, v := range vs {
			if wantSig == "" || v.sig == wantSig {
				x.res.Violate(vsc, v.sig, v.what, v.replay)
			}
		}
		return
	}
	x.res.EngineError("replay: unknown scenario %q", name)
}
