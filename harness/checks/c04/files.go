package c04

import (
	"bytes"
	"fmt"
	"strings"
	"time"

	"perkeep.org/pkg/blob"

	"verif/hs"
	vworld "verif/world"
)

const chunkSize = 256 << 10

// fileSpec is one logical file: its schema blob, its content and where the chunk boundaries are.
type fileSpec struct {
	blob     hs.Blob // the file schema blob
	fileName string
	content  []byte
	wholeRef blob.Ref
	bounds   []int // chunk boundaries strictly inside the content
}

// scen is one explored universe: logical blobs, files, forced zip size.
type scen struct {
	name   string
	blobs  []hs.Blob  // the logical blobs a client uploads (chunks, bytes schema blobs, file schema blobs)
	files  []fileSpec // files among them
	maxZip int
	// fixedOrders, if set, replaces "all permutations of blobs".
	fixedOrders [][]int
	note        string
	// deep: in the thorough tier explore a second crash level
	deep bool
}

func (s *scen) isFile(b hs.Blob) bool {
	for _, f := range s.files {
		if f.blob.Ref == b.Ref {
			return true
		}
	}
	return false
}

func (s *scen) limit() int {
	if s.maxZip > 0 {
		return s.maxZip
	}
	return 16 << 20
}

var modT = time.Unix(1400000000, 0).UTC()

func mkFile(name, fileName string, chunks ...hs.Blob) fileSpec {
	f := fileSpec{blob: vworld.File(name, fileName, modT, chunks...), fileName: fileName}
	for i, c := range chunks {
		if i > 0 {
			f.bounds = append(f.bounds, len(f.content))
		}
		f.content = append(f.content, c.Data...)
	}
	f.wholeRef = blob.RefFromBytes(f.content)
	return f
}

// bytesBlob makes a "bytes" schema blob over the chunks.
func bytesBlob(name string, chunks ...hs.Blob) hs.Blob {
	var b bytes.Buffer
	b.WriteString("{\"camliVersion\": 1,\n  \"camliType\": \"bytes\",\n  \"parts\": [")
	for i, c := range chunks {
		if i > 0 {
			b.WriteString(",")
		}
		fmt.Fprintf(&b, "\n    {\"blobRef\": %q, \"size\": %d}", c.Ref.String(), len(c.Data))
	}
	b.WriteString("\n  ]\n}")
	return hs.Mk(name, b.Bytes(), "")
}

// fileOverBytes makes a file schema blob whose single part is a bytesRef.
func fileOverBytes(name, fileName string, by hs.Blob, chunks ...hs.Blob) fileSpec {
	var size int
	f := fileSpec{fileName: fileName}
	for i, c := range chunks {
		if i > 0 {
			f.bounds = append(f.bounds, len(f.content))
		}
		f.content = append(f.content, c.Data...)
		size += len(c.Data)
	}
	j := fmt.Sprintf("{\"camliVersion\": 1,\n  \"camliType\": \"file\",\n  \"fileName\": %q,\n  \"parts\": [\n    {\"bytesRef\": %q, \"size\": %d}\n  ],\n  \"unixMtime\": \"2014-05-13T16:53:20Z\"\n}", fileName, by.Ref.String(), size)
	f.blob = hs.Mk(name, []byte(j), "")
	f.wholeRef = blob.RefFromBytes(f.content)
	return f
}

// bytesGroup is one nested "bytes" schema blob with its chunks.
type bytesGroup struct {
	by     hs.Blob
	chunks []hs.Blob
}

// fileOverGroups makes a file schema blob whose parts are bytesRefs, one per group.
func fileOverGroups(name, fileName string, groups ...bytesGroup) fileSpec {
	f := fileSpec{fileName: fileName}
	var parts []string
	for _, g := range groups {
		size := 0
		for _, c := range g.chunks {
			if len(f.content) > 0 {
				f.bounds = append(f.bounds, len(f.content))
			}
			f.content = append(f.content, c.Data...)
			size += len(c.Data)
		}
		parts = append(parts, fmt.Sprintf("    {\"bytesRef\": %q, \"size\": %d}", g.by.Ref.String(), size))
	}
	j := fmt.Sprintf("{\"camliVersion\": 1,\n  \"camliType\": \"file\",\n  \"fileName\": %q,\n  \"parts\": [\n%s\n  ],\n  \"unixMtime\": \"2014-05-13T16:53:20Z\"\n}", fileName, strings.Join(parts, ",\n"))
	f.blob = hs.Mk(name, []byte(j), "")
	f.wholeRef = blob.RefFromBytes(f.content)
	return f
}

var (
	cA = hs.Mk("a", hs.Det(11, chunkSize), "")
	cB = hs.Mk("b", hs.Det(12, chunkSize), "")
	cC = hs.Mk("c", hs.Det(13, chunkSize), "")
)

func smallChunks(n, size int) []hs.Blob {
	var out []hs.Blob
	for i := 0; i < n; i++ {
		out = append(out, hs.Mk(fmt.Sprintf("k%d", i), hs.Det(uint64(100+i), size), ""))
	}
	return out
}
