package c04

import (
	"archive/zip"
	"bytes"
	"context"
	"encoding/json"
	"errors"
	"fmt"
	"io"
	"os"
	"regexp"
	"strings"

	"perkeep.org/pkg/blob"
	"perkeep.org/pkg/blobserver"
	"perkeep.org/pkg/blobserver/blobpacked"

	"verif/hs"
)

var ctx = context.Background()

const manifestPath = "camlistore/camlistore-pack-manifest.json"

// finding is one disagreement with the property; class goes into the signature.
type finding struct {
	class string
	what  string
}

func fnd(class, format string, args ...any) *finding {
	return &finding{class, fmt.Sprintf(format, args...)}
}

// observation is what one evaluation saw besides "no finding" (vacuity guard and evidence counts).
type observation struct {
	whole       []string // per file: "served" or "notexist"
	resurrected int      // removed packed blobs visible again after a recovery from the zips
	zips        int
	present     string // names of the visible blobs
}

func (o *observation) key() string {
	return fmt.Sprintf("%s|w=%s|r=%d|z=%d", o.present, strings.Join(o.whole, ","), o.resurrected, o.zips)
}

// probe fetches b: (true, nil) intact, (false, nil) not found, finding otherwise.
func probe(sto blob.Fetcher, b hs.Blob) (bool, *finding) {
	rc, size, err := sto.Fetch(ctx, b.Ref)
	if err != nil {
		if errors.Is(err, os.ErrNotExist) {
			return false, nil
		}
		return false, fnd("fetch-error", "Fetch(%s): %v", b.Name, err)
	}
	data, rerr := io.ReadAll(rc)
	rc.Close()
	if rerr != nil || int(size) != len(b.Data) || !bytes.Equal(data, b.Data) {
		return false, fnd("torn-blob-served", "Fetch(%s) returned size %d and %d bytes (read error %v) that are not the %d bytes uploaded", b.Name, size, len(data), rerr, len(b.Data))
	}
	return true, nil
}

// zipInfo is the harness's own reading of one zip in large.
type zipInfo struct {
	data     []byte
	problem  *finding
	contains map[blob.Ref]bool
}

var zipCache = map[blob.Ref]*zipInfo{}

func (sc *scen) blobByRef(br blob.Ref) (hs.Blob, bool) {
	for _, b := range sc.blobs {
		if b.Ref == br {
			return b, true
		}
	}
	return hs.Blob{}, false
}

// inspectZip validates one blob of large against the property's last clause:
// a valid blob within the limit, a valid zip, whose first entry is contiguous
// file content, with the manifest describing it.
func inspectZip(sc *scen, br blob.Ref, data []byte) *zipInfo {
	if zi, ok := zipCache[br]; ok && len(zi.data) == len(data) && (len(data) == 0 || &zi.data[0] == &data[0] || bytes.Equal(zi.data, data)) {
		return zi
	}
	zi := &zipInfo{data: data, contains: map[blob.Ref]bool{}}
	if len(zipCache) > 40 {
		zipCache = map[blob.Ref]*zipInfo{}
	}
	zipCache[br] = zi
	bad := func(class, format string, args ...any) *zipInfo {
		zi.problem = fnd(class, "blob %s (%d bytes) in large: %s", short(br), len(data), fmt.Sprintf(format, args...))
		return zi
	}
	if blob.RefFromBytes(data) != br {
		return bad("zip-ref-mismatch", "its bytes do not hash to its ref")
	}
	if len(data) > sc.limit() {
		return bad("zip-over-size-limit", "larger than the limit of %d bytes by %d", sc.limit(), len(data)-sc.limit())
	}
	zr, err := zip.NewReader(bytes.NewReader(data), int64(len(data)))
	if err != nil {
		return bad("zip-invalid", "archive/zip cannot open it: %v", err)
	}
	if len(zr.File) < 2 {
		return bad("zip-invalid", "only %d entries", len(zr.File))
	}
	first := zr.File[0]
	var fs *fileSpec
	for i := range sc.files {
		if sc.files[i].fileName == first.Name {
			fs = &sc.files[i]
		}
	}
	if fs == nil {
		return bad("zip-first-entry-not-the-file", "first entry is %q, not a file name of this universe", first.Name)
	}
	off, err := first.DataOffset()
	if err != nil {
		return bad("zip-invalid", "first entry: %v", err)
	}
	n := int64(first.UncompressedSize64)
	if first.Method != zip.Store || off+n > int64(len(data)) {
		return bad("zip-first-entry-not-contiguous", "first entry is not stored uncompressed (method %d) or overruns the zip", first.Method)
	}
	for _, f := range zr.File[1:] {
		o, err := f.DataOffset()
		if err != nil || o < off+n {
			return bad("zip-first-entry-not-first", "entry %q lies before the end of the first entry", f.Name)
		}
	}
	body := data[off : off+n]
	// contiguous file content: a run of whole chunks of the file
	starts := append([]int{0}, fs.bounds...)
	ends := append(append([]int{}, fs.bounds...), len(fs.content))
	var ats []int
	for _, s := range starts {
		e := s + int(n)
		okEnd := false
		for _, x := range ends {
			if x == e {
				okEnd = true
			}
		}
		if okEnd && bytes.Equal(fs.content[s:e], body) {
			ats = append(ats, s)
		}
	}
	if len(ats) == 0 {
		return bad("zip-first-entry-not-file-content", "first entry %q (%d bytes) is not a run of whole chunks of the file content", first.Name, n)
	}
	var mfFile *zip.File
	for _, f := range zr.File[1:] {
		if f.Name == manifestPath {
			mfFile = f
			continue
		}
		if !strings.HasPrefix(f.Name, "camlistore/") || !strings.HasSuffix(f.Name, ".json") {
			return bad("zip-unexpected-entry", "entry %q", f.Name)
		}
		ebr, ok := blob.Parse(strings.TrimSuffix(strings.TrimPrefix(f.Name, "camlistore/"), ".json"))
		if !ok {
			return bad("zip-unexpected-entry", "entry %q is not named after a blobref", f.Name)
		}
		rc, err := f.Open()
		if err != nil {
			return bad("zip-invalid", "entry %q: %v", f.Name, err)
		}
		eb, err := io.ReadAll(rc)
		rc.Close()
		if err != nil {
			return bad("zip-invalid", "entry %q: %v", f.Name, err)
		}
		sb, known := sc.blobByRef(ebr)
		if !known || !bytes.Equal(eb, sb.Data) {
			return bad("zip-schema-entry-wrong", "entry %q does not hold the schema blob of that ref", f.Name)
		}
		zi.contains[ebr] = true
	}
	if mfFile == nil {
		return bad("zip-no-manifest", "no %s entry", manifestPath)
	}
	rc, err := mfFile.Open()
	if err != nil {
		return bad("zip-invalid", "manifest: %v", err)
	}
	var mf blobpacked.Manifest
	err = json.NewDecoder(rc).Decode(&mf)
	rc.Close()
	if err != nil {
		return bad("zip-manifest-wrong", "manifest does not decode: %v", err)
	}
	if mf.WholeRef != fs.wholeRef || mf.WholeSize != int64(len(fs.content)) {
		return bad("zip-manifest-wrong", "manifest says wholeRef %s size %d, the file is %s size %d", short(mf.WholeRef), mf.WholeSize, short(fs.wholeRef), len(fs.content))
	}
	if mf.DataBlobsOrigin != blob.RefFromBytes(body) {
		return bad("zip-manifest-wrong", "dataBlobsOrigin is not the hash of the first entry")
	}
	hasZero, hasLater := ats[0] == 0, ats[len(ats)-1] > 0
	if mf.WholePartIndex < 0 || (mf.WholePartIndex == 0 && !hasZero) || (mf.WholePartIndex > 0 && !hasLater) {
		return bad("zip-manifest-wrong", "wholePartIndex %d but the first entry lies at offset(s) %v of the file", mf.WholePartIndex, ats)
	}
	var pos int64
	for _, bp := range mf.DataBlobs {
		cb, known := sc.blobByRef(bp.Ref)
		if bp.Offset != pos || !known || int(bp.Size) != len(cb.Data) || pos+int64(bp.Size) > n || !bytes.Equal(body[pos:pos+int64(bp.Size)], cb.Data) {
			return bad("zip-manifest-wrong", "dataBlobs entry %s offset %d size %d does not describe the first entry at position %d", short(bp.Ref), bp.Offset, bp.Size, pos)
		}
		pos += int64(bp.Size)
		zi.contains[bp.Ref] = true
	}
	if pos != n {
		return bad("zip-manifest-wrong", "dataBlobs cover %d of the %d bytes of the first entry", pos, n)
	}
	return zi
}

func short(br blob.Ref) string {
	s := br.String()
	if len(s) > 14 {
		return s[:14]
	}
	return s
}

// checkZips validates every blob of large; returns which logical blobs some zip holds.
func checkZips(sc *scen, w *world) (map[blob.Ref]bool, int, *finding) {
	in := map[blob.Ref]bool{}
	refs := w.large.Refs()
	for _, br := range refs {
		data, _ := w.large.Get(br)
		zi := inspectZip(sc, br, data)
		if zi.problem != nil {
			return nil, 0, zi.problem
		}
		for r := range zi.contains {
			in[r] = true
		}
	}
	return in, len(refs), nil
}

var cmpBuf = make([]byte, 64<<10)

// readEquals consumes r and compares with want.
func readEquals(r io.Reader, want []byte) (int, error, bool) {
	total := 0
	same := true
	for {
		n, err := r.Read(cmpBuf)
		if n > 0 {
			if total+n > len(want) || !bytes.Equal(cmpBuf[:n], want[total:total+n]) {
				same = false
			}
			total += n
		}
		if err == io.EOF {
			return total, nil, same && total == len(want)
		}
		if err != nil {
			return total, err, false
		}
		if total > len(want)+(1<<20) {
			return total, errors.New("reader does not end"), false
		}
	}
}

// checkWhole reads every file through OpenWholeRef at the boundary offsets.
func checkWhole(sc *scen, sto blobserver.Storage) ([]string, *finding) {
	wf, ok := sto.(blobserver.WholeRefFetcher)
	if !ok {
		return nil, fnd("no-wholeref-fetcher", "%T does not implement WholeRefFetcher", sto)
	}
	var status []string
	seen := map[blob.Ref]string{}
	for _, f := range sc.files {
		if st, dup := seen[f.wholeRef]; dup {
			status = append(status, st)
			continue
		}
		S := len(f.content)
		offs := []int{0, 1}
		for _, b := range f.bounds {
			offs = append(offs, b-1, b, b+1)
		}
		offs = append(offs, S-1, S)
		st := ""
		for _, off := range offs {
			rc, size, err := wf.OpenWholeRef(f.wholeRef, int64(off))
			cur := "served"
			if err != nil {
				if !errors.Is(err, os.ErrNotExist) {
					return nil, fnd("wholeref-error", "OpenWholeRef(%s, %d): %v (neither the bytes nor os.ErrNotExist)", f.fileName, off, err)
				}
				cur = "notexist"
			} else {
				n, rerr, same := readEquals(rc, f.content[off:])
				rc.Close()
				if size != int64(S) {
					return nil, fnd("wholeref-size", "OpenWholeRef(%s, %d) reports whole size %d, the file has %d bytes", f.fileName, off, size, S)
				}
				if rerr != nil {
					return nil, fnd("wholeref-read-error", "OpenWholeRef(%s, %d): read fails after %d of %d bytes: %v", f.fileName, off, n, S-off, rerr)
				}
				if !same {
					return nil, fnd("wholeref-bytes", "OpenWholeRef(%s, %d) returned %d bytes that are not the file content from that offset (%d bytes)", f.fileName, off, n, S-off)
				}
			}
			if st != "" && st != cur {
				return nil, fnd("wholeref-inconsistent", "OpenWholeRef(%s): offset %d is %s, offset 0 was %s", f.fileName, off, cur, st)
			}
			st = cur
		}
		seen[f.wholeRef] = st
		status = append(status, st)
	}
	return status, nil
}

// evaluate is the complete oracle at one observation point.
//   - ref: acknowledged blobs (updated in place with what is resolved by observation)
//   - inflight: blob of the operation hit by the crash (present or absent, never torn); nil if none
//   - fromZips: the instance was just rebuilt from the zips, so removed packed blobs may be visible again
func evaluate(sc *scen, w *world, sto blobserver.Storage, ref *hs.RefMap, inflight *hs.Blob, fromZips bool) (*observation, *finding) {
	was := w.quiet
	w.quiet = true
	defer func() { w.quiet = was }()
	obs := &observation{}
	inZip, nz, f := checkZips(sc, w)
	if f != nil {
		return nil, f
	}
	obs.zips = nz
	if inflight != nil {
		ok, f := probe(sto, *inflight)
		if f != nil {
			f.what = "in-flight blob: " + f.what
			return nil, f
		}
		if ok {
			ref.Put(*inflight)
		} else {
			ref.Del(*inflight)
		}
	}
	if fromZips {
		for _, b := range sc.blobs {
			if ref.Has(b) || !inZip[b.Ref] {
				continue
			}
			ok, f := probe(sto, b)
			if f != nil {
				return nil, f
			}
			if ok {
				obs.resurrected++
				ref.Put(b)
			}
		}
	}
	if m := hs.Battery(sto, ref, sc.blobs, hs.BatteryOpt{Light: true}); m != nil {
		return nil, fnd(m.Kind, "expected exactly {%s}: %s", ref.Key(), m.Detail)
	}
	whole, f := checkWhole(sc, sto)
	if f != nil {
		return nil, f
	}
	obs.whole = whole
	obs.present = ref.Key()
	// A file whose schema blob and every chunk sit in zips is completely packed: on an
	// instance that never crashed, OpenWholeRef must then serve it (judged only there: after
	// a crash in the middle of a pack the w: rows may legitimately be incomplete).
	if inflight == nil && !fromZips && !w.everCrashed {
		for i, f := range sc.files {
			if i >= len(whole) || whole[i] == "served" || !inZip[f.blob.Ref] {
				continue
			}
			packed := true
			prev := 0
			for _, b := range append(append([]int{}, f.bounds...), len(f.content)) {
				if !inZip[blob.RefFromBytes(f.content[prev:b])] {
					packed = false
				}
				prev = b
			}
			if packed {
				return nil, fnd("wholeref-not-served-although-packed", "every chunk and the schema blob of %s are in zips (%d zips), yet OpenWholeRef says it does not exist", f.fileName, nz)
			}
		}
	}
	return obs, nil
}

var reNorm = regexp.MustCompile(`sha(1|224|256)-[0-9a-f]+|0x[0-9a-f]+|[\[\]\*\?]|\d+`)

func normPanic(v any) string {
	s := fmt.Sprint(v)
	s = reNorm.ReplaceAllString(s, "#")
	if len(s) > 100 {
		s = s[:100]
	}
	return s
}
