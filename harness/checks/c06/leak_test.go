package c06

import (
	"os"
	"runtime"
	"strings"
	"testing"

	"verif/vk"
)

func rssMB() string {
	b, _ := os.ReadFile("/proc/self/status")
	for _, l := range strings.Split(string(b), "\n") {
		if strings.HasPrefix(l, "VmRSS") {
			return l
		}
	}
	return ""
}

func TestProbeLeak(t *testing.T) {
	defer vk.Cleanup()
	for _, k := range kvKinds[1:] {
		for i := 0; i < 1500; i++ {
			st, err := k.open("", nil)
			if err != nil {
				t.Fatal(err)
			}
			for j := 0; j < 20; j++ {
				st.kv.Set("k"+string(rune('a'+j)), "v")
			}
			st.discard()
		}
		runtime.GC()
		var ms runtime.MemStats
		runtime.ReadMemStats(&ms)
		t.Logf("%s: after 1500 open/close: %s heap=%dMB goroutines=%d", k.Name, rssMB(), ms.HeapAlloc>>20, runtime.NumGoroutine())
	}
}
