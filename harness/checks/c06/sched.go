package c06

import (
	"sort"
	"strings"
	"sync"
	"testing/synctest"

	"perkeep.org/pkg/blob"
	"perkeep.org/pkg/index"
	"perkeep.org/pkg/schema"
)

// The index re-indexes blobs whose dependencies have arrived on goroutines
// that pop the ready set in map-iteration order: when several blobs become
// ready at once (a public key arriving after its claims), the order in which
// they are re-indexed is a free choice of the Go runtime, and the outcome
// depends on it (a delete claim re-indexed before or after its target). The
// harness owns that choice: every history runs in a testing/synctest bubble;
// each re-indexing goroutine parks in the blob source's Fetch hook when it
// fetches the blob it is about to re-index; the driver waits until everything
// is durably blocked (synctest.Wait), then releases ONE parked goroutine,
// chosen by the chooser, and repeats. The real goroutines, locks and code
// run; only the order among simultaneously ready blobs is dictated.

// chooser enumerates the choice sequences of one history depth-first.
type chooser struct {
	prefix []int // choices to replay
	last   bool  // beyond the prefix: highest index instead of 0
	nodes  []int // arity of every choice node reached
	taken  []int
}

func (c *chooser) choose(n int) int {
	if n <= 1 {
		return 0
	}
	i := len(c.taken)
	ch := 0
	if i < len(c.prefix) {
		ch = c.prefix[i]
	} else if c.last {
		ch = n - 1
	}
	if ch >= n {
		ch = n - 1
	}
	c.nodes = append(c.nodes, n)
	c.taken = append(c.taken, ch)
	return ch
}

// next returns the choice prefix of the next execution in depth-first order, or nil.
func (c *chooser) next() []int {
	for i := len(c.taken) - 1; i >= 0; i-- {
		if c.taken[i]+1 < c.nodes[i] {
			p := append([]int(nil), c.taken[:i]...)
			return append(p, c.taken[i]+1)
		}
	}
	return nil
}

type parkedG struct {
	br blob.Ref
	ch chan struct{}
}

// parker is the Fetch hook of one index's blob source.
type parker struct {
	mu       sync.Mutex
	parked   []*parkedG
	order    map[blob.Ref]int
	parkable map[blob.Ref]bool
}

// Blobs of these types are fetched by the index only to re-index them
// (dependencies that are fetched are public keys, chunks, bytes and
// static-set blobs), so a Fetch of one marks the start of a re-indexing.
func parkableType(br blob.Ref, data []byte) bool {
	sb, err := schema.BlobFromReader(br, strings.NewReader(string(data)))
	if err != nil {
		return false
	}
	switch sb.Type() {
	case schema.TypePermanode, schema.TypeClaim, schema.TypeFile, schema.TypeDirectory:
		return true
	}
	return false
}

func newParker(s *Set) *parker {
	p := &parker{order: map[blob.Ref]int{}, parkable: map[blob.Ref]bool{}}
	for i, b := range s.Blobs {
		p.order[b.Ref] = i
		if parkableType(b.Ref, b.Data) {
			p.parkable[b.Ref] = true
		}
	}
	return p
}

func (p *parker) hook(store, op string, br blob.Ref) error {
	if op != "fetch" || !p.parkable[br] {
		return nil
	}
	g := &parkedG{br: br, ch: make(chan struct{})}
	p.mu.Lock()
	p.parked = append(p.parked, g)
	p.mu.Unlock()
	<-g.ch
	return nil
}

// settle lets the pending re-indexing run to quiescence, one blob at a time in
// the order given by ch. Must be called from the bubble's driver goroutine.
func (p *parker) settle(x *index.Index, ch *chooser) {
	for {
		synctest.Wait()
		p.mu.Lock()
		n := len(p.parked)
		if n == 0 {
			p.mu.Unlock()
			x.VerifAwaitReindex()
			synctest.Wait()
			p.mu.Lock()
			n = len(p.parked)
			p.mu.Unlock()
			if n == 0 {
				return
			}
			continue
		}
		sort.SliceStable(p.parked, func(i, j int) bool { return p.order[p.parked[i].br] < p.order[p.parked[j].br] })
		i := ch.choose(n)
		g := p.parked[i]
		p.parked = append(p.parked[:i], p.parked[i+1:]...)
		p.mu.Unlock()
		close(g.ch)
	}
}
