// C06 — the live index and corpus always equal what a restart would load.
//
// Pure differential, bounded exhaustive: for every blob set of sets.go, every
// arrival permutation (plus every single re-delivery) is fed blob by blob
// through Index.ReceiveBlob into an index with an in-memory corpus attached
// before the first blob; after EVERY arrival (once the asynchronous
// out-of-order re-indexing has settled) the complete query battery of
// battery.go is asked of the live index+corpus and of a fresh
// index.New + KeepInMemory over a copy of the persisted rows. Any different
// answer is a violation. No hand-written expectation anywhere.
package c06

import (
	"encoding/json"
	"fmt"
	"io"
	"log"
	"os"
	"runtime"
	"runtime/debug"
	"strings"
	"testing"
	"testing/synctest"
	"time"

	"perkeep.org/pkg/blobserver"
	"perkeep.org/pkg/index"

	"verif/hs"
	"verif/vk"
	"verif/world"
)

const (
	scnPrefix   = "prefix-restart"
	scnReopen   = "reopen-same-file"
	scnContinue = "restart-then-continue"
)

type replayCase struct {
	KV       string   `json:"kv"`
	Set      string   `json:"set"`
	History  []int    `json:"history"`
	Names    []string `json:"history_names"`
	Step     int      `json:"step"` // compared after delivering History[Step]
	Scenario string   `json:"scenario"`
	Schedule []int    `json:"schedule"` // choices among simultaneously ready blobs (index into the parked blobs sorted by set position)
}

// point is the result of one comparison.
type point struct {
	Step       int
	Scn        string
	Findings   []finding
	Outcome    string
	Nontrivial bool
	NQueries   int
}

type runOpts struct {
	cont     bool // also run the restart-then-continue scenario
	onlyStep int  // -1: every step; else compare only at this step (confirmation / replay)
	onlyScn  string
}

func histNames(s *Set, h []int) []string {
	n := make([]string, len(h))
	for i, b := range h {
		n[i] = s.Blobs[b].Name
	}
	return n
}

func srcWith(s *Set, h []int) *hs.Mem {
	m := hs.NewMem("src")
	for _, b := range h {
		m.Put(s.Blobs[b])
	}
	return m
}

func obsKey(obs []ob) string {
	var sb strings.Builder
	for _, o := range obs {
		sb.WriteString(o.V)
		sb.WriteByte(0)
	}
	return sb.String()
}

var realStart = time.Now()

// runHistory executes one history on a fresh live server, inside its own
// synctest bubble, and compares at the requested points. feeds counts
// ReceiveBlob calls made by the harness; ch dictates (and records) the order
// in which simultaneously ready blobs are re-indexed.
func runHistory(t *testing.T, kind *kvKind, u *universe, hist []int, o runOpts, ch *chooser) (pts []point, feeds int, err error) {
	synctest.Test(t, func(t *testing.T) {
		// the bubble's clock starts in 2000; claims are dated 2011
		if d := realStart.Sub(time.Now()); d > 0 {
			time.Sleep(d)
		}
		pts, feeds, err = runHistoryInBubble(kind, u, hist, o, ch)
	})
	// the out-of-order re-indexing goes through blobserver.Receive, which
	// registers a hub per Index in a package-level map: forget them
	blobserver.VerifResetHubs()
	return
}

type panicError struct{ v any }

func (p panicError) Error() string { return fmt.Sprintf("panic: %v", p.v) }

func runHistoryInBubble(kind *kvKind, u *universe, hist []int, o runOpts, ch *chooser) (pts []point, feeds int, err error) {
	set := u.set
	l, err := newLive(kind, u)
	if err != nil {
		return nil, 0, err
	}
	type kept struct {
		step int
		in   *liveRun
	}
	var conts []kept
	defer func() {
		if p := recover(); p != nil {
			err = panicError{p}
		}
		// nothing may stay parked when the bubble ends
		l.pk.settle(l.x.Index, &chooser{})
		for _, k := range conts {
			k.in.pk.settle(k.in.x.Index, &chooser{})
			k.in.close()
		}
		l.close()
	}()
	want := func(step int, scn string) bool {
		return (o.onlyStep < 0 || o.onlyStep == step) && (o.onlyScn == "" || o.onlyScn == scn)
	}
	var lastObs []ob
	for step, bi := range hist {
		if err := l.feed(set.Blobs[bi], ch); err != nil {
			return pts, feeds, fmt.Errorf("ReceiveBlob(%s) at step %d: %v", set.Blobs[bi].Name, step, err)
		}
		feeds++
		last := step == len(hist)-1
		needCont := o.cont && !last && want(step, scnContinue)
		// The live server is queried after every arrival, also when only one point
		// is compared (confirmation, replay): queries have side effects on the
		// live corpus (lazily sorted permanode lists cached per generation).
		lobs := observe(u, l.x.Index, l.corp)
		lastObs = lobs
		if needCont {
			var db []hs.Blob
			for _, b := range hist[:step+1] {
				db = append(db, set.Blobs[b])
			}
			rl, err := restartLive(kind, u, l.st.kv, srcWith(set, hist[:step+1]), db)
			if err != nil {
				return pts, feeds, fmt.Errorf("restart at step %d: %v", step, err)
			}
			conts = append(conts, kept{step, rl})
		}
		if !want(step, scnPrefix) {
			continue
		}
		r, err := restart(kind, set, l.st.kv, srcWith(set, hist[:step+1]), nil, nil)
		if err != nil {
			return pts, feeds, fmt.Errorf("restart at step %d: %v", step, err)
		}
		if want(step, scnPrefix) {
			robs := observe(u, r.x.Index, r.corp)
			diffs, err := diffObs(lobs, robs)
			var fs []finding
			if err == nil {
				fs, err = l.findings("", lobs, diffs)
			}
			if err != nil {
				r.close()
				return pts, feeds, err
			}
			pat := l.pattern()
			pts = append(pts, point{Step: step, Scn: scnPrefix, Findings: fs, Outcome: pat + "\x00" + obsKey(lobs), Nontrivial: pat != "in-order", NQueries: len(lobs)})
		}
		r.close()
	}
	// the same file closed and opened again, compared with the last live answers
	if kind.fileBacked() && want(len(hist)-1, scnReopen) && lastObs != nil {
		step := len(hist) - 1
		pat := l.pattern()
		st2, err := l.st.reopen()
		if err != nil {
			return pts, feeds, fmt.Errorf("reopen: %v", err)
		}
		l.st = st2 // the deferred close discards the reopened store; the classification reads its rows
		in2, err := openInst(st2, srcWith(set, hist), set)
		if err != nil {
			return pts, feeds, fmt.Errorf("reopen: %v", err)
		}
		robs := observe(u, in2.x.Index, in2.corp)
		diffs, err := diffObs(lastObs, robs)
		var fs []finding
		if err == nil {
			fs, err = l.findings("", lastObs, diffs)
		}
		if err != nil {
			return pts, feeds, err
		}
		pts = append(pts, point{Step: step, Scn: scnReopen, Findings: fs, Outcome: pat + "\x00" + obsKey(lastObs), Nontrivial: pat != "in-order", NQueries: len(lastObs)})
	}
	// restart at step k, then the rest of the history: (1) the rows at the end
	// must be the rows of the uninterrupted run; (2) the restarted server that
	// went on receiving is a live server again: its answers must equal what
	// another restart over its rows would load.
	if len(conts) > 0 {
		liveRows := world.DumpKV(l.st.kv)
		for _, k := range conts {
			cl := k.in
			for _, bi := range hist[k.step+1:] {
				// simultaneously ready blobs are re-indexed lowest-first here: the order is
				// enumerated for the uninterrupted run only (the persisted rows must not depend on it)
				if err := cl.feed(set.Blobs[bi], &chooser{}); err != nil {
					return pts, feeds, fmt.Errorf("ReceiveBlob(%s) after restart at step %d: %v", set.Blobs[bi].Name, k.step, err)
				}
				feeds++
			}
			rows := world.DumpKV(cl.st.kv)
			types, text := rowsDiff(liveRows, rows)
			p := point{Step: k.step, Scn: scnContinue, Nontrivial: true}
			if len(types) > 0 {
				class := scnContinue + ":" + set.Name + ":" + strings.Join(types, ",")
				p.Findings = append(p.Findings, finding{Sig: "C06|" + kind.Name + "|persisted-rows|" + class, Method: "persisted-rows", Class: class, N: 1,
					First: diff{M: "persisted-rows", A: fmt.Sprintf("restart after arrival #%d, then the remaining arrivals", k.step+1), Live: "(uninterrupted run)", Other: text}})
			}
			cobs := observe(u, cl.x.Index, cl.corp)
			r2, err := restart(kind, set, cl.st.kv, srcWith(set, hist), nil, nil)
			if err != nil {
				return pts, feeds, fmt.Errorf("second restart (first after step %d): %v", k.step, err)
			}
			robs := observe(u, r2.x.Index, r2.corp)
			r2.close()
			diffs, err := diffObs(cobs, robs)
			var fs []finding
			if err == nil {
				fs, err = cl.findings(scnContinue, cobs, diffs)
			}
			if err != nil {
				return pts, feeds, err
			}
			p.Findings = append(p.Findings, fs...)
			p.Outcome = fmt.Sprintf("%v\x00%d\x00", types, len(rows)) + obsKey(cobs)
			p.NQueries = len(cobs)
			pts = append(pts, p)
		}
	}
	return pts, feeds, nil
}

type runner struct {
	t     *testing.T
	res   *vk.Result
	nviol map[string]int
	u     map[string]*universe
	all   bool // enumerate every order of simultaneously ready blobs (else: lowest-first and highest-first)
}

func (r *runner) universe(s *Set) *universe {
	if u, ok := r.u[s.Name]; ok {
		return u
	}
	u := newUniverse(s)
	r.u[s.Name] = u
	return u
}

func what(u *universe, s *Set, hist []int, p point, f finding) string {
	names := histNames(s, hist)
	return fmt.Sprintf("set %q, arrivals %s; after arrival #%d (%s), scenario %s: %s(%s): live = %s ; restarted = %s  (%d differing queries with this signature at this point)",
		s.Name, strings.Join(names, ","), p.Step+1, names[p.Step], p.Scn, f.First.M, f.First.A,
		clip(u.names.Replace(f.First.Live)), clip(u.names.Replace(f.First.Other)), f.N)
}

func clip(s string) string {
	if len(s) > 700 {
		return s[:700] + "..."
	}
	return s
}

// report confirms (5 re-runs from scratch, same schedule) and records the findings of one point.
func (r *runner) report(kind *kvKind, s *Set, hist []int, sched []int, p point, cont bool) {
	u := r.universe(s)
	sc := r.res.Scenario(kind.Name + "/" + p.Scn)
	for _, f := range p.Findings {
		r.nviol[f.Sig]++
		if r.nviol[f.Sig] > 3 {
			continue
		}
		ok := true
		for i := 0; i < 5 && ok; i++ {
			pts, _, err := runHistory(r.t, kind, u, hist, runOpts{cont: cont, onlyStep: p.Step, onlyScn: p.Scn}, &chooser{prefix: sched})
			found := false
			if err == nil {
				for _, p2 := range pts {
					for _, f2 := range p2.Findings {
						if p2.Scn == p.Scn && f2.Sig == f.Sig {
							found = true
						}
					}
				}
			}
			ok = found
		}
		w := what(u, s, hist, p, f)
		if !ok {
			r.res.EngineError("difference %s did not reproduce 5/5: %s", f.Sig, w)
			continue
		}
		r.res.Violate(sc, f.Sig, w, replayCase{KV: kind.Name, Set: s.Name, History: hist, Names: histNames(s, hist), Step: p.Step, Scenario: p.Scn, Schedule: sched})
	}
}

func normMsg(msg string) string {
	msg = strings.NewReplacer("[", "(", "]", ")", "*", "", "?", "").Replace(msg)
	for {
		i := strings.Index(msg, "sha224-")
		if i < 0 {
			break
		}
		j := i + len("sha224-")
		for j < len(msg) && strings.ContainsRune("0123456789abcdef", rune(msg[j])) {
			j++
		}
		msg = msg[:i] + "REF" + msg[j:]
	}
	if len(msg) > 120 {
		msg = msg[:120]
	}
	return msg
}

// oneHistory runs and accounts one history under every schedule of the tier.
func (r *runner) oneHistory(kind *kvKind, s *Set, hist []int, cont bool) {
	if r.all && !kind.fileBacked() {
		// thorough, memory KV: every order of simultaneously ready blobs. The
		// restart-then-continue scenario (whose continued servers use the
		// lowest-first order anyway) runs with the first and the last schedule only.
		first := &chooser{}
		r.oneExecution(kind, s, hist, cont, first, "")
		if len(first.nodes) == 0 {
			return
		}
		for prefix := first.next(); prefix != nil; {
			ch := &chooser{prefix: prefix}
			r.oneExecution(kind, s, hist, false, ch, "")
			prefix = ch.next()
		}
		if cont {
			r.oneExecution(kind, s, hist, true, &chooser{last: true}, scnContinue)
		}
		return
	}
	// quick tier, and the file-backed kinds in both tiers: lowest-first, then
	// highest-first when there was any choice
	first := &chooser{}
	r.oneExecution(kind, s, hist, cont, first, "")
	if len(first.nodes) > 0 {
		r.oneExecution(kind, s, hist, cont, &chooser{last: true}, "")
	}
}

func (r *runner) oneExecution(kind *kvKind, s *Set, hist []int, cont bool, ch *chooser, onlyScn string) {
	u := r.universe(s)
	pts, feeds, err := runHistory(r.t, kind, u, hist, runOpts{cont: cont, onlyStep: -1, onlyScn: onlyScn}, ch)
	sched := append([]int(nil), ch.taken...)
	scP := r.res.Scenario(kind.Name + "/" + scnPrefix)
	if onlyScn == "" {
		scP.Executions++
		scP.Transitions += int64(feeds)
	} else {
		r.res.Scenario(kind.Name + "/" + onlyScn).Transitions += int64(feeds)
	}
	if ee, ok := err.(engineErr); ok {
		r.res.EngineError("set %s arrivals %v: %v", s.Name, histNames(s, hist), ee)
		return
	}
	if err != nil {
		// an indexing / restart error or a panic inside perkeep code: confirm, then report under its own class
		for i := 0; i < 5; i++ {
			if _, _, err2 := runHistory(r.t, kind, u, hist, runOpts{cont: cont, onlyStep: -1, onlyScn: onlyScn}, &chooser{prefix: sched}); err2 == nil {
				r.res.EngineError("error did not reproduce: set %s arrivals %v: %v", s.Name, histNames(s, hist), err)
				return
			}
		}
		class := "error"
		if _, ok := err.(panicError); ok {
			class = "panic"
		}
		r.res.Violate(scP, "C06|"+kind.Name+"|"+class+"|"+s.Name+":"+normMsg(err.Error()), fmt.Sprintf("set %q, arrivals %v: %v", s.Name, histNames(s, hist), err),
			replayCase{KV: kind.Name, Set: s.Name, History: hist, Names: histNames(s, hist), Step: -1, Scenario: scnPrefix, Schedule: sched})
		return
	}
	for _, p := range pts {
		sc := r.res.Scenario(kind.Name + "/" + p.Scn)
		sc.States++
		if p.Scn != scnPrefix {
			sc.Executions++
		}
		if p.Nontrivial {
			sc.Nontrivial++
		}
		sc.Outcome(p.Outcome)
		if len(sc.Samples) < 2 {
			sc.Sample(map[string]any{"set": s.Name, "arrivals": histNames(s, hist), "schedule": sched, "compared_after_arrival": p.Step + 1, "answers_compared": p.NQueries, "differing_signatures": len(p.Findings)})
		}
		if len(p.Findings) > 0 {
			r.report(kind, s, hist, sched, p, cont)
		}
	}
}

// plan is the list of (kind, set) spaces of the tier, in a fixed order.
type space struct {
	kind *kvKind
	set  *Set
	cont bool
}

func plan(thorough bool) []space {
	var out []space
	sets := Sets()
	for _, k := range kvKinds {
		for _, s := range sets {
			if !k.fileBacked() {
				if thorough || s.Quick {
					out = append(out, space{k, s, true})
				}
				continue
			}
			if s.FileKV == "quick" || (thorough && s.FileKV == "thorough") {
				out = append(out, space{k, s, thorough})
			}
		}
	}
	return out
}

func TestCheck(t *testing.T) {
	defer vk.Cleanup()
	if os.Getenv("VERIF_VERBOSE") == "" {
		log.SetOutput(io.Discard)
	}
	index.SetVerboseCorpusLogging(false)
	debug.SetGCPercent(400)
	res := vk.New("C06")
	res.Rule = "every arrival permutation (plus every stated single re-delivery) of every blob set x every prefix: the full query battery on the live index+corpus is compared with index.New+KeepInMemory over a copy of the persisted rows (same KV kind; file-backed copies are closed and reopened); a case is distinct when the (arrival pattern, full live answer vector) is distinct"
	res.Assumptions = []string{
		"pure differential: no expectation about any answer, only live == restarted",
		"results documented as unordered (AppendClaims, EnumerateBlobMeta, ForeachClaim, map results) are compared as sets",
		"the asynchronous out-of-order re-indexing is awaited (VerifAwaitReindex) after every arrival: only quiescent points are compared",
		"blobs are signed with the two test key rings of pkg/jsonsign/testdata; claim dates on one permanode are distinct",
	}
	r := &runner{t: t, res: res, nviol: map[string]int{}, u: map[string]*universe{}, all: vk.Thorough()}
	if rp, ok := vk.ReplayFile(); ok {
		r.replay(rp)
		res.Write()
		return
	}
	deadline := vk.Deadline()
	work := 0
	cut := false
	for _, sp := range plan(vk.Thorough()) {
		hs := sp.set.Histories(vk.Thorough(), sp.kind.fileBacked())
		done, mine := 0, 0
		for _, h := range hs {
			work++
			if !vk.Mine(work) {
				continue
			}
			mine++
			if cut || time.Now().After(deadline) {
				cut = true
				continue
			}
			r.oneHistory(sp.kind, sp.set, h, sp.cont)
			done++
		}
		if os.Getenv("VERIF_VERBOSE") != "" {
			var ms runtime.MemStats
			runtime.GC()
			runtime.GC()
			runtime.ReadMemStats(&ms)
			fmt.Fprintf(os.Stderr, "%s/%s: %d histories, done %d; heap=%dMB sys=%dMB goroutines=%d t=%v\n", sp.kind.Name, sp.set.Name, len(hs), done, ms.HeapAlloc>>20, ms.Sys>>20, runtime.NumGoroutine(), time.Since(realStart).Round(time.Second))
		}
		names := []string{scnPrefix}
		if sp.kind.fileBacked() {
			names = append(names, scnReopen)
		}
		if sp.cont {
			names = append(names, scnContinue)
		}
		for _, n := range names {
			sc := res.Scenario(sp.kind.Name + "/" + n)
			sc.Bound += fmt.Sprintf("%s: %d blobs, %d histories; ", sp.set.Name, len(sp.set.Blobs), len(hs))
			if done < mine {
				sc.Exhaustive = false
				sc.Note += fmt.Sprintf("deadline: set %s only %d of this shard's %d histories; ", sp.set.Name, done, mine)
			}
		}
	}
	for sig, n := range r.nviol {
		if n > 3 {
			fmt.Fprintf(os.Stderr, "signature %s: %d comparison points (3 recorded)\n", sig, n)
		}
	}
	res.Write()
}

func (r *runner) replay(rp map[string]any) {
	raw, _ := json.Marshal(rp["replay"])
	var rc replayCase
	if err := json.Unmarshal(raw, &rc); err != nil {
		r.res.EngineError("replay: %v", err)
		return
	}
	wantSig, _ := rp["signature"].(string)
	kind := kindByName(rc.KV)
	var set *Set
	for _, s := range Sets() {
		if s.Name == rc.Set {
			set = s
		}
	}
	if kind == nil || set == nil {
		r.res.EngineError("replay: unknown kv %q or set %q", rc.KV, rc.Set)
		return
	}
	u := r.universe(set)
	pts, _, err := runHistory(r.t, kind, u, rc.History, runOpts{cont: rc.Scenario == scnContinue, onlyStep: rc.Step, onlyScn: rc.Scenario}, &chooser{prefix: rc.Schedule})
	if err != nil {
		r.res.Violate(r.res.Scenario(kind.Name+"/"+rc.Scenario), wantSig, "replayed: "+err.Error(), rc)
		return
	}
	for _, p := range pts {
		for _, f := range p.Findings {
			if f.Sig == wantSig || wantSig == "" {
				r.res.Violate(r.res.Scenario(kind.Name+"/"+p.Scn), f.Sig, "replayed: "+what(u, set, rc.History, p, f), rc)
			}
		}
	}
}
