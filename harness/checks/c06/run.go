package c06

import (
	"fmt"
	"sort"
	"strings"
	"sync"

	"perkeep.org/pkg/blob"
	"perkeep.org/pkg/index"
	"perkeep.org/pkg/schema"
	"perkeep.org/pkg/sorted"

	"verif/hs"
	"verif/world"
)

// inst is one index + corpus over a store.
type inst struct {
	st   *store
	x    *world.Idx
	corp *index.Corpus
	src  *hs.Mem
	pk   *parker // scheduling of the re-indexing goroutines (instances that receive blobs)
}

func (in *inst) close() {
	if in != nil && in.st != nil {
		in.st.discard()
	}
}

// openInst opens index.New + KeepInMemory over st (empty store: a fresh
// server; store with rows: a restart).
func openInst(st *store, src *hs.Mem, set *Set) (*inst, error) {
	pk := newParker(set)
	src.Hook = pk.hook
	x, err := world.NewIdx(st.kv, src)
	if err != nil {
		return nil, fmt.Errorf("index.New: %v", err)
	}
	corp, err := x.Index.KeepInMemory()
	if err != nil {
		return nil, fmt.Errorf("KeepInMemory: %v", err)
	}
	return &inst{st: st, x: x, corp: corp, src: src, pk: pk}, nil
}

// feedAwait delivers one blob and lets the out-of-order re-indexing settle.
func feedAwait(in *inst, b hs.Blob, ch *chooser) error {
	if err := in.x.Feed(b); err != nil {
		in.pk.settle(in.x.Index, ch)
		return err
	}
	in.pk.settle(in.x.Index, ch)
	return nil
}

// liveRun is the running server of one history.
type liveRun struct {
	*inst
	u    *universe
	kind *kvKind
	set  *Set

	delivered   map[blob.Ref]int
	mu          sync.Mutex
	everPartial map[string]bool // blobs that were stored partially (have row without "|indexed") at some point
	sawPending  bool            // at some earlier point a blob waited for a dependency
	redelivered bool
}

// noteRow watches the have: rows written by the live index.
func (l *liveRun) noteRow(k, v string) {
	if strings.HasPrefix(k, "have:") && !strings.HasSuffix(v, "|indexed") {
		l.mu.Lock()
		l.everPartial[k[len("have:"):]] = true
		l.mu.Unlock()
	}
}

// restartLive is a restart that goes on receiving blobs: a live server again.
func restartLive(kind *kvKind, u *universe, rows sorted.KeyValue, src *hs.Mem, delivered []hs.Blob) (*liveRun, error) {
	l := &liveRun{u: u, kind: kind, set: u.set, delivered: map[blob.Ref]int{}, everPartial: map[string]bool{}}
	for _, b := range delivered {
		l.delivered[b.Ref]++
	}
	// blobs stored partially before the restart
	it := rows.Find("have:", "have;")
	for it.Next() {
		l.noteRow(it.Key(), it.Value())
	}
	if err := it.Close(); err != nil {
		return nil, err
	}
	in, err := restartWith(kind, u.set, rows, src, nil, nil, l.noteRow)
	if err != nil {
		return nil, err
	}
	l.inst = in
	return l, nil
}

func newLive(kind *kvKind, u *universe) (*liveRun, error) {
	l := &liveRun{u: u, kind: kind, set: u.set, delivered: map[blob.Ref]int{}, everPartial: map[string]bool{}}
	st, err := kind.open("", l.noteRow)
	if err != nil {
		return nil, err
	}
	in, err := openInst(st, hs.NewMem("src"), u.set)
	if err != nil {
		st.discard()
		return nil, err
	}
	l.inst = in
	return l, nil
}

func (l *liveRun) feed(b hs.Blob, ch *chooser) error {
	if l.delivered[b.Ref] > 0 {
		l.redelivered = true
	}
	l.delivered[b.Ref]++
	if err := feedAwait(l.inst, b, ch); err != nil {
		return err
	}
	if l.pending() {
		l.sawPending = true
	}
	return nil
}

func (l *liveRun) pending() bool {
	n, nb, rr := l.x.Index.VerifNeedCounts()
	return n+nb+rr > 0
}

func (l *liveRun) partials() int {
	l.mu.Lock()
	defer l.mu.Unlock()
	return len(l.everPartial)
}

// pattern names the arrival pattern of the prefix delivered so far.
func (l *liveRun) pattern() string {
	switch {
	case l.pending():
		return "deps-pending"
	case l.redelivered:
		return "redelivery"
	case l.sawPending || l.partials() > 0:
		return "after-out-of-order"
	}
	return "in-order"
}

// restart opens a fresh index + corpus over a copy of the live rows in a new
// store of the same kind. (Closing and reopening the very same file is the
// separate reopen-same-file comparison at the end of every history.)
func restart(kind *kvKind, set *Set, rows sorted.KeyValue, src *hs.Mem, filter func(k, v string) bool, extra map[string]string) (*inst, error) {
	return restartWith(kind, set, rows, src, filter, extra, nil)
}

func restartWith(kind *kvKind, set *Set, rows sorted.KeyValue, src *hs.Mem, filter func(k, v string) bool, extra map[string]string, onSet func(k, v string)) (*inst, error) {
	st, err := kind.open("", nil)
	if err != nil {
		return nil, err
	}
	if w, ok := st.kv.(*wrapKV); ok {
		defer func() { w.onSet = onSet }() // watch only what the index writes, not the copy
	} else if onSet != nil {
		st.kv = &wrapKV{raw: st.raw, via: func(f func()) { f() }}
		w := st.kv.(*wrapKV)
		defer func() { w.onSet = onSet }()
	}
	it := rows.Find("", "")
	for it.Next() {
		if filter != nil && !filter(it.Key(), it.Value()) {
			continue
		}
		if err := st.kv.Set(it.Key(), it.Value()); err != nil {
			it.Close()
			st.discard()
			return nil, err
		}
	}
	if err := it.Close(); err != nil {
		st.discard()
		return nil, err
	}
	for k, v := range extra {
		if err := st.kv.Set(k, v); err != nil {
			st.discard()
			return nil, err
		}
	}
	in, err := openInst(st, src, set)
	if err != nil {
		st.discard()
		return nil, err
	}
	return in, nil
}

// ---- classification of differences (labels only; nothing here can make a difference pass) ----

// A hypothesis is a named, known way in which the live side deviates: it
// builds the index a restart WOULD load if the rows were altered in the
// stated way. A difference gets the hypothesis' label only if the live
// answer equals the answer of that altered restart (and differs from the real one).
type hypothesis struct {
	label string
	build func(l *liveRun) (*inst, error)
}

func lastKeyPart(k string) string {
	if i := strings.LastIndexByte(k, '|'); i >= 0 {
		return k[i+1:]
	}
	return ""
}

func keyType(k string) string {
	if i := strings.IndexAny(k, "|:"); i >= 0 {
		return k[:i]
	}
	return k
}

// lateBlobs: blobs that were stored partially first (dependency not indexed
// yet: a delete claim before its target) and have been fully re-indexed since.
func (l *liveRun) lateBlobs() map[string]bool {
	late := map[string]bool{}
	l.mu.Lock()
	defer l.mu.Unlock()
	for br := range l.everPartial {
		if v, err := l.st.kv.Get("have:" + br); err == nil && strings.HasSuffix(v, "|indexed") {
			late[br] = true
		}
	}
	return late
}

func reverseTimeString(s string) string {
	b := []byte("rt")
	for i := 0; i < len(s); i++ {
		c := s[i]
		if c >= '0' && c <= '9' {
			c = '0' + ('9' - c)
		}
		b = append(b, c)
	}
	return string(b)
}

// undeletableDeletes returns the "deleted|" rows that the indexed delete
// claims of the set would have if the indexer had accepted their targets
// although these are neither permanodes nor claims.
func (l *liveRun) undeletableDeletes() map[string]string {
	rows := map[string]string{}
	for _, b := range l.set.Blobs {
		if l.delivered[b.Ref] == 0 {
			continue
		}
		if v, err := l.st.kv.Get("have:" + b.Ref.String()); err != nil || !strings.HasSuffix(v, "|indexed") {
			continue
		}
		sb, err := schema.BlobFromReader(b.Ref, strings.NewReader(string(b.Data)))
		if err != nil {
			continue
		}
		cl, ok := sb.AsClaim()
		if !ok || cl.ClaimType() != schema.DeleteClaim {
			continue
		}
		key := "deleted|" + cl.Target().String() + "|" + reverseTimeString(cl.ClaimDateString()) + "|" + b.Ref.String()
		if _, err := l.st.kv.Get(key); err == nil {
			continue
		}
		rows[key] = ""
	}
	return rows
}

var hypotheses = []hypothesis{
	{
		// corpus.addBlob returns early when the blob is already in c.blobs: the rows
		// written when a partially stored blob is re-indexed never reach the live corpus.
		label: "delete-before-target",
		build: func(l *liveRun) (*inst, error) {
			late := l.lateBlobs()
			if len(late) == 0 {
				return nil, nil
			}
			return restart(kvKinds[0], l.set, l.st.kv, hs.NewMem("src"), func(k, v string) bool {
				switch keyType(k) {
				case "claim", "deleted":
					return !late[lastKeyPart(k)]
				}
				return true
			}, nil)
		},
	},
	{
		// populateClaim notes every delete claim for the deletes caches even when
		// populateDeleteClaim refused the target and wrote no "deleted|" row.
		label: "delete-of-undeletable-target",
		build: func(l *liveRun) (*inst, error) {
			extra := l.undeletableDeletes()
			if len(extra) == 0 {
				return nil, nil
			}
			return restart(kvKinds[0], l.set, l.st.kv, hs.NewMem("src"), nil, extra)
		},
	},
}

// classify labels the differences found at one comparison point.
func (l *liveRun) classify(lobs []ob, diffs []diff) (map[int]string, error) {
	labels := map[int]string{}
	if len(diffs) == 0 {
		return labels, nil
	}
	for _, h := range hypotheses {
		open := false
		for i := range diffs {
			if _, done := labels[i]; !done {
				open = true
			}
		}
		if !open {
			break
		}
		hi, err := h.build(l)
		if err != nil {
			return nil, fmt.Errorf("hypothesis %s: %v", h.label, err)
		}
		if hi == nil {
			continue
		}
		hobs := observe(l.u, hi.x.Index, hi.corp)
		hi.close()
		for i, d := range diffs {
			if _, done := labels[i]; done {
				continue
			}
			if hv, ok := lookup(hobs, d); ok && hv == d.Live {
				labels[i] = h.label
			}
		}
	}
	fallback := l.set.Name + ":" + l.pattern()
	for i := range diffs {
		if _, done := labels[i]; !done {
			labels[i] = fallback
		}
	}
	return labels, nil
}

// finding is one signature seen at one comparison point, with its first difference.
type finding struct {
	Sig    string
	Method string
	Class  string
	N      int // differing queries with this signature at this point
	First  diff
}

func (l *liveRun) findings(scn string, lobs []ob, diffs []diff) ([]finding, error) {
	labels, err := l.classify(lobs, diffs)
	if err != nil {
		return nil, err
	}
	by := map[string]*finding{}
	var order []string
	for i, d := range diffs {
		class := labels[i]
		if scn != "" && strings.HasPrefix(class, l.set.Name+":") {
			class = scn + ":" + class // an unexplained difference keeps the scenario in its class
		}
		sig := "C06|" + l.kind.Name + "|" + d.M + "|" + class
		f := by[sig]
		if f == nil {
			f = &finding{Sig: sig, Method: d.M, Class: class, First: d}
			by[sig] = f
			order = append(order, sig)
		}
		f.N++
	}
	sort.Strings(order)
	out := make([]finding, 0, len(order))
	for _, s := range order {
		out = append(out, *by[s])
	}
	return out, nil
}

// rowsDiff compares two row dumps; returns the sorted list of key types that differ and a short text.
func rowsDiff(a, b []string) (types []string, text string) {
	am := map[string]bool{}
	for _, r := range a {
		am[r] = true
	}
	bm := map[string]bool{}
	for _, r := range b {
		bm[r] = true
	}
	ts := map[string]bool{}
	var lines []string
	for _, r := range a {
		if !bm[r] {
			ts[keyType(r)] = true
			lines = append(lines, "only without restart: "+r)
		}
	}
	for _, r := range b {
		if !am[r] {
			ts[keyType(r)] = true
			lines = append(lines, "only with restart: "+r)
		}
	}
	for t := range ts {
		types = append(types, t)
	}
	sort.Strings(types)
	if len(lines) > 8 {
		lines = append(lines[:8], fmt.Sprintf("... (%d more)", len(lines)-8))
	}
	return types, strings.Join(lines, "; ")
}
