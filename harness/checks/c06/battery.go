package c06

import (
	"context"
	"errors"
	"fmt"
	"os"
	"sort"
	"strings"
	"time"

	"perkeep.org/pkg/blob"
	"perkeep.org/pkg/index"
	"perkeep.org/pkg/schema"
	"perkeep.org/pkg/sorted"
	"perkeep.org/pkg/types/camtypes"

	"verif/hs"
	"verif/world"
)

var ctxbg = context.Background()

// An ob is one answer of one query: Method + Args identify the call.
type ob struct {
	M, A, V string
}

// universe is what the battery asks about for one set.
type universe struct {
	set     *Set
	refs    []blob.Ref // every blob of the set + one ref nobody delivers
	names   *strings.Replacer
	attrs   []string
	vals    []string
	times   []time.Time
	tnames  []string
	signers []struct{ id, name string } // signer filters (GPG key ids)
	srefs   []hs.Blob                   // public key blobs
}

func newUniverse(s *Set) *universe {
	u := &universe{set: s}
	var rep []string
	for _, b := range s.Blobs {
		u.refs = append(u.refs, b.Ref)
		rep = append(rep, b.Ref.String(), "<"+b.Name+">")
	}
	u.refs = append(u.refs, unknownRef)
	rep = append(rep, unknownRef.String(), "<unknown>")
	A, B := world.A(), world.B()
	rep = append(rep, A.Pub.Ref.String(), "<"+A.Pub.Name+">", B.Pub.Ref.String(), "<"+B.Pub.Name+">",
		A.KeyID, "<keyA>", B.KeyID, "<keyB>")
	u.names = strings.NewReplacer(rep...)
	u.attrs = append(append([]string(nil), s.Attrs...), "noSuchAttr")
	u.vals = append(append([]string(nil), s.Vals...), "noSuchValue")
	u.times = []time.Time{{}, world.T(0)}
	u.tnames = []string{"now", "t0"}
	for r := 1; r <= s.MaxRank; r++ {
		u.times = append(u.times, world.T(r), world.T(r).Add(500*time.Millisecond))
		u.tnames = append(u.tnames, fmt.Sprintf("t%d", r), fmt.Sprintf("t%d.5", r))
	}
	u.signers = []struct{ id, name string }{{"", "any"}, {A.KeyID, "A"}, {B.KeyID, "B"}, {unknownKeyID, "unknown"}}
	u.srefs = []hs.Blob{A.Pub, B.Pub}
	return u
}

func (u *universe) name(br blob.Ref) string { return u.names.Replace(br.String()) }

func errStr(err error) string {
	switch {
	case err == nil:
		return ""
	case errors.Is(err, os.ErrNotExist):
		return "ERR:not-exist"
	case errors.Is(err, sorted.ErrNotFound):
		return "ERR:not-found"
	}
	return "ERR:" + err.Error()
}

func tstr(t time.Time, ok bool) string {
	if !ok {
		return fmt.Sprintf("none(%v)", t.IsZero())
	}
	return t.UTC().Format(time.RFC3339Nano)
}

func claimStr(c camtypes.Claim) string {
	return fmt.Sprintf("{%v by %v %s %q=%q pn=%v tgt=%v @%s}", c.BlobRef, c.Signer, c.Type, c.Attr, c.Value, c.Permanode, c.Target, c.Date.UTC().Format(time.RFC3339Nano))
}

func claimsStr(cls []camtypes.Claim, err error) string {
	if err != nil {
		return errStr(err)
	}
	s := make([]string, len(cls))
	for i, c := range cls {
		s[i] = claimStr(c)
	}
	sort.Strings(s) // interface.go: "in any order"
	return strings.Join(s, " ")
}

func refSet(m map[blob.Ref]struct{}, err error) string {
	if err != nil {
		return errStr(err)
	}
	if m == nil {
		return "nil"
	}
	s := make([]string, 0, len(m))
	for br := range m {
		s = append(s, br.String())
	}
	sort.Strings(s)
	return "{" + strings.Join(s, " ") + "}"
}

func metaStr(bm camtypes.BlobMeta) string {
	return fmt.Sprintf("%v/%d/%q", bm.Ref, bm.Size, bm.CamliType)
}

func fileInfoStr(fi camtypes.FileInfo, err error) string {
	if err != nil {
		return errStr(err)
	}
	t, mt := "-", "-"
	if fi.Time != nil {
		t = fi.Time.String()
	}
	if fi.ModTime != nil {
		mt = fi.ModTime.String()
	}
	return fmt.Sprintf("name=%q size=%d mime=%q time=%s modtime=%s whole=%v", fi.FileName, fi.Size, fi.MIMEType, t, mt, fi.WholeRef)
}

func pathsStr(ps []*camtypes.Path, err error) string {
	if err != nil {
		return errStr(err)
	}
	s := make([]string, len(ps))
	for i, p := range ps {
		s[i] = fmt.Sprintf("{claim=%v base=%v suffix=%q target=%v @%s}", p.Claim, p.Base, p.Suffix, p.Target, p.ClaimDate.UTC().Format(time.RFC3339Nano))
	}
	sort.Strings(s)
	return strings.Join(s, " ")
}

// observe runs the whole query battery on one index+corpus and returns the
// answers in a fixed order. All values are canonical strings (sets sorted
// where the API promises no order).
func observe(u *universe, x *index.Index, c *index.Corpus) []ob {
	out := make([]ob, 0, 4096)
	add := func(m, a, v string) { out = append(out, ob{m, a, v}) }
	x.RLock()
	defer x.RUnlock()

	for _, br := range u.refs {
		rn := u.name(br)
		bm, err := x.GetBlobMeta(ctxbg, br)
		if err != nil {
			add("Index.GetBlobMeta", rn, errStr(err))
		} else {
			add("Index.GetBlobMeta", rn, metaStr(bm))
		}
		bm, err = c.GetBlobMeta(ctxbg, br)
		if err != nil {
			add("Corpus.GetBlobMeta", rn, errStr(err))
		} else {
			add("Corpus.GetBlobMeta", rn, metaStr(bm))
		}
		add("Index.IsDeleted", rn, fmt.Sprint(x.IsDeleted(br)))
		add("Corpus.IsDeleted", rn, fmt.Sprint(c.IsDeleted(br)))

		for _, sg := range u.signers {
			for ai := -1; ai < len(u.attrs); ai++ {
				attr := ""
				if ai >= 0 {
					attr = u.attrs[ai]
				}
				args := fmt.Sprintf("%s signer=%s attr=%q", rn, sg.name, attr)
				add("Index.AppendClaims", args, claimsStr(x.AppendClaims(ctxbg, nil, br, sg.id, attr)))
				add("Corpus.AppendClaims", args, claimsStr(c.AppendClaims(ctxbg, nil, br, sg.id, attr)))
			}
		}
		for _, attr := range u.attrs {
			for ti, at := range u.times {
				for _, sg := range u.signers {
					args := fmt.Sprintf("%s %q at=%s signer=%s", rn, attr, u.tnames[ti], sg.name)
					add("Corpus.PermanodeAttrValue", args, fmt.Sprintf("%q", c.PermanodeAttrValue(br, attr, at, sg.id)))
					add("Corpus.AppendPermanodeAttrValues", args, fmt.Sprintf("%q", c.AppendPermanodeAttrValues(nil, br, attr, at, sg.id)))
				}
				for _, val := range u.vals {
					add("Corpus.PermanodeHasAttrValue", fmt.Sprintf("%s at=%s %q=%q", rn, u.tnames[ti], attr, val), fmt.Sprint(c.PermanodeHasAttrValue(br, at, attr, val)))
				}
			}
		}
		add("Corpus.PermanodeModtime", rn, tstr(c.PermanodeModtime(br)))
		add("Corpus.PermanodeAnyTime", rn, tstr(c.PermanodeAnyTime(br)))
		add("Corpus.PermanodeTime", rn, tstr(c.PermanodeTime(br)))

		add("Index.GetFileInfo", rn, fileInfoStr(x.GetFileInfo(ctxbg, br)))
		add("Corpus.GetFileInfo", rn, fileInfoStr(c.GetFileInfo(ctxbg, br)))
		add("Corpus.GetDirChildren", rn, refSet(c.GetDirChildren(ctxbg, br)))
		add("Corpus.GetParentDirs", rn, refSet(c.GetParentDirs(ctxbg, br)))
		{
			ch := make(chan blob.Ref, 64)
			err := x.GetDirMembers(ctxbg, br, ch, 0)
			var s []string
			for m := range ch {
				s = append(s, m.String())
			}
			sort.Strings(s)
			add("Index.GetDirMembers", rn, errStr(err)+strings.Join(s, " "))
		}
		wr, ok := c.GetWholeRef(ctxbg, br)
		add("Corpus.GetWholeRef", rn, fmt.Sprintf("%v %v", wr, ok))
		if ii, err := x.GetImageInfo(ctxbg, br); err != nil {
			add("Index.GetImageInfo", rn, errStr(err))
		} else {
			add("Index.GetImageInfo", rn, fmt.Sprintf("%dx%d", ii.Width, ii.Height))
		}
		if tags, err := x.GetMediaTags(ctxbg, br); err != nil {
			add("Index.GetMediaTags", rn, errStr(err))
		} else {
			var s []string
			for k, v := range tags {
				s = append(s, k+"="+v)
			}
			sort.Strings(s)
			add("Index.GetMediaTags", rn, strings.Join(s, ","))
		}
		if loc, err := x.GetFileLocation(ctxbg, br); err != nil {
			add("Index.GetFileLocation", rn, errStr(err))
		} else {
			add("Index.GetFileLocation", rn, fmt.Sprintf("%.7f,%.7f", loc.Latitude, loc.Longitude))
		}
		{
			lat, long, ok := c.FileLatLong(br)
			add("Corpus.FileLatLong", rn, fmt.Sprintf("%.7f,%.7f,%v", lat, long, ok))
		}
		id, err := x.KeyId(ctxbg, br)
		add("Index.KeyId", rn, id+errStr(err))
		id, err = c.KeyId(ctxbg, br)
		add("Corpus.KeyId", rn, id+errStr(err))

		{
			edges, err := x.EdgesTo(br, nil)
			s := make([]string, len(edges))
			for i, e := range edges {
				s[i] = fmt.Sprintf("{from=%v type=%s title=%q to=%v via=%v}", e.From, e.FromType, e.FromTitle, e.To, e.BlobRef)
			}
			sort.Strings(s)
			add("Index.EdgesTo", rn, errStr(err)+strings.Join(s, " "))
		}
		for _, sb := range u.srefs {
			add("Index.PathsOfSignerTarget", fmt.Sprintf("signer=%s target=%s", sb.Name, rn), pathsStr(x.PathsOfSignerTarget(ctxbg, sb.Ref, br)))
			for _, suf := range u.set.Suffixes {
				add("Index.PathsLookup", fmt.Sprintf("signer=%s base=%s suffix=%q", sb.Name, rn, suf), pathsStr(x.PathsLookup(ctxbg, sb.Ref, br, suf)))
				for ti, at := range u.times {
					p, err := x.PathLookup(ctxbg, sb.Ref, br, suf, at)
					v := errStr(err)
					if err == nil {
						v = pathsStr([]*camtypes.Path{p}, nil)
					}
					add("Index.PathLookup", fmt.Sprintf("signer=%s base=%s suffix=%q at=%s", sb.Name, rn, suf, u.tnames[ti]), v)
				}
			}
		}
		for ti, at := range u.times {
			var s, sb []string
			c.ForeachClaim(br, at, func(cl *camtypes.Claim) bool { s = append(s, claimStr(*cl)); return true })
			c.ForeachClaimBack(br, at, func(cl *camtypes.Claim) bool { sb = append(sb, claimStr(*cl)); return true })
			sort.Strings(s) // "Iteration is in an undefined order"
			sort.Strings(sb)
			add("Corpus.ForeachClaim", fmt.Sprintf("%s at=%s", rn, u.tnames[ti]), strings.Join(s, " "))
			add("Corpus.ForeachClaimBack", fmt.Sprintf("%s at=%s", rn, u.tnames[ti]), strings.Join(sb, " "))
		}
		{
			m, err := x.ExistingFileSchemas(br)
			var s []string
			for _, r := range m[br.String()] {
				s = append(s, r.String())
			}
			sort.Strings(s)
			add("Index.ExistingFileSchemas", rn, errStr(err)+strings.Join(s, " "))
		}
		c.EnumerateSingleBlob(func(bm camtypes.BlobMeta) bool { add("Corpus.EnumerateSingleBlob", rn, metaStr(bm)); return true }, br)
	}

	// per signer: rows + deletes cache
	for _, sb := range u.srefs {
		for _, attr := range u.attrs {
			if !index.IsIndexedAttribute(attr) {
				continue
			}
			for _, val := range u.vals {
				pn, err := x.PermanodeOfSignerAttrValue(ctxbg, sb.Ref, attr, val)
				add("Index.PermanodeOfSignerAttrValue", fmt.Sprintf("signer=%s %q=%q", sb.Name, attr, val), pn.String()+errStr(err))
			}
			for ti, at := range u.times {
				for _, q := range append([]string{""}, u.vals...) {
					ch := make(chan blob.Ref, 64)
					err := x.SearchPermanodesWithAttr(ctxbg, ch, &camtypes.PermanodeByAttrRequest{Signer: sb.Ref, Attribute: attr, Query: q, At: at})
					var s []string
					for r := range ch {
						s = append(s, r.String())
					}
					add("Index.SearchPermanodesWithAttr", fmt.Sprintf("signer=%s %q=%q at=%s", sb.Name, attr, q, u.tnames[ti]), errStr(err)+strings.Join(s, " "))
				}
			}
		}
		for ti, at := range u.times {
			ch := make(chan camtypes.RecentPermanode, 64)
			err := x.GetRecentPermanodes(ctxbg, ch, sb.Ref, 50, at)
			var s []string
			for r := range ch {
				s = append(s, fmt.Sprintf("{%v by %v @%s}", r.Permanode, r.Signer, r.LastModTime.UTC().Format(time.RFC3339Nano)))
			}
			add("Index.GetRecentPermanodes", fmt.Sprintf("owner=%s before=%s", sb.Name, u.tnames[ti]), errStr(err)+strings.Join(s, " "))
		}
	}

	// whole-corpus enumerations
	for _, newest := range []bool{true, false} {
		var s []string
		c.EnumeratePermanodesCreated(func(bm camtypes.BlobMeta) bool { s = append(s, metaStr(bm)); return true }, newest)
		add("Corpus.EnumeratePermanodesCreated", fmt.Sprintf("newestFirst=%v", newest), strings.Join(s, " "))
	}
	{
		var s []string
		c.EnumeratePermanodesLastModified(func(bm camtypes.BlobMeta) bool { s = append(s, metaStr(bm)); return true })
		add("Corpus.EnumeratePermanodesLastModified", "", strings.Join(s, " "))
	}
	{
		var s []string
		c.EnumerateBlobMeta(func(bm camtypes.BlobMeta) bool { s = append(s, metaStr(bm)); return true })
		sort.Strings(s) // "undefined order"
		add("Corpus.EnumerateBlobMeta", "", strings.Join(s, " "))
		s = nil
		err := x.EnumerateBlobMeta(ctxbg, func(bm camtypes.BlobMeta) bool { s = append(s, metaStr(bm)); return true })
		sort.Strings(s)
		add("Index.EnumerateBlobMeta", "", errStr(err)+strings.Join(s, " "))
	}
	for _, ct := range []schema.CamliType{"", schema.TypePermanode, schema.TypeClaim, schema.TypeFile, schema.TypeDirectory, schema.TypeBytes, schema.TypeStaticSet} {
		var s []string
		c.EnumerateCamliBlobs(ct, func(bm camtypes.BlobMeta) bool { s = append(s, metaStr(bm)); return true })
		sort.Strings(s)
		add("Corpus.EnumerateCamliBlobs", fmt.Sprintf("type=%q", ct), strings.Join(s, " "))
	}
	{
		var s []string
		c.EnumeratePermanodesByNodeTypes(func(bm camtypes.BlobMeta) bool { s = append(s, metaStr(bm)); return true }, []string{"", "foursquare.com:checkin"})
		sort.Strings(s)
		add("Corpus.EnumeratePermanodesByNodeTypes", "", strings.Join(s, " "))
	}
	{
		ok, err := x.HasLegacySHA1()
		add("Index.HasLegacySHA1", "", fmt.Sprint(ok)+errStr(err))
	}
	return out
}

// A diff is one query answered differently by the two sides.
type diff struct {
	M, A        string
	Live, Other string
	i           int // position in the observation vector
}

func diffObs(live, other []ob) ([]diff, error) {
	var out []diff
	// the battery is a fixed sequence except for EnumerateSingleBlob (present only when the blob is known):
	// align by (M, A) keys.
	idx := make(map[string]int, len(other))
	for i, o := range other {
		idx[o.M+"\x00"+o.A] = i
	}
	seen := make(map[string]bool, len(live))
	for i, o := range live {
		k := o.M + "\x00" + o.A
		seen[k] = true
		j, ok := idx[k]
		if !ok {
			out = append(out, diff{M: o.M, A: o.A, Live: o.V, Other: "(no answer)", i: i})
			continue
		}
		if other[j].V != o.V {
			out = append(out, diff{M: o.M, A: o.A, Live: o.V, Other: other[j].V, i: i})
		}
	}
	for _, o := range other {
		if !seen[o.M+"\x00"+o.A] {
			out = append(out, diff{M: o.M, A: o.A, Live: "(no answer)", Other: o.V, i: -1})
		}
	}
	return out, nil
}

func lookup(obs []ob, m, a string) (string, bool) {
	for _, o := range obs {
		if o.M == m && o.A == a {
			return o.V, true
		}
	}
	return "", false
}
