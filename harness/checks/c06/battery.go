package c06

import (
	"context"
	"errors"
	"fmt"
	"os"
	"sort"
	"strings"
	"time"

	"perkeep.org/pkg/blob"
	"perkeep.org/pkg/index"
	"perkeep.org/pkg/schema"
	"perkeep.org/pkg/sorted"
	"perkeep.org/pkg/types/camtypes"

	"verif/hs"
	"verif/world"
)

var ctxbg = context.Background()

// An ob is one answer of one query: Method + Args identify the call.
type ob struct {
	M, A, V string
}

// universe is what the battery asks about for one set.
type universe struct {
	set     *Set
	refs    []blob.Ref // every blob of the set + one ref nobody delivers
	rnames  []string
	names   *strings.Replacer
	attrs   []string
	vals    []string
	times   []time.Time
	tnames  []string
	signers []struct{ id, name string } // signer filters (GPG key ids)
	srefs   []hs.Blob                   // public key blobs

	argCache []ob // method + argument text of every battery position (filled by the first observe)
}

func newUniverse(s *Set) *universe {
	u := &universe{set: s}
	var rep []string
	for _, b := range s.Blobs {
		u.refs = append(u.refs, b.Ref)
		rep = append(rep, b.Ref.String(), "<"+b.Name+">")
	}
	u.refs = append(u.refs, unknownRef)
	rep = append(rep, unknownRef.String(), "<unknown>")
	A, B := world.A(), world.B()
	rep = append(rep, A.Pub.Ref.String(), "<"+A.Pub.Name+">", B.Pub.Ref.String(), "<"+B.Pub.Name+">",
		A.KeyID, "<keyA>", B.KeyID, "<keyB>")
	u.names = strings.NewReplacer(rep...)
	for _, br := range u.refs {
		u.rnames = append(u.rnames, u.names.Replace(br.String()))
	}
	u.attrs = append(append([]string(nil), s.Attrs...), "noSuchAttr")
	u.vals = append(append([]string(nil), s.Vals...), "noSuchValue")
	u.times = []time.Time{{}, world.T(0)}
	u.tnames = []string{"now", "t0"}
	for r := 1; r <= s.MaxRank; r++ {
		u.times = append(u.times, world.T(r), world.T(r).Add(500*time.Millisecond))
		u.tnames = append(u.tnames, fmt.Sprintf("t%d", r), fmt.Sprintf("t%d.5", r))
	}
	u.signers = []struct{ id, name string }{{"", "any"}, {A.KeyID, "A"}, {B.KeyID, "B"}, {unknownKeyID, "unknown"}}
	u.srefs = []hs.Blob{A.Pub, B.Pub}
	return u
}

func (u *universe) name(br blob.Ref) string { return u.names.Replace(br.String()) }

func valsStr(v []string) string {
	if len(v) == 0 {
		return "()"
	}
	return "(" + strings.Join(v, "\x1f") + ")"
}

// engineErr marks a harness problem (never a violation).
type engineErr struct{ error }

func bstr(b bool) string {
	if b {
		return "true"
	}
	return "false"
}

func errStr(err error) string {
	switch {
	case err == nil:
		return ""
	case errors.Is(err, os.ErrNotExist):
		return "ERR:not-exist"
	case errors.Is(err, sorted.ErrNotFound):
		return "ERR:not-found"
	}
	return "ERR:" + err.Error()
}

func tstr(t time.Time, ok bool) string {
	if !ok {
		return fmt.Sprintf("none(%v)", t.IsZero())
	}
	return t.UTC().Format(time.RFC3339Nano)
}

func claimStr(c camtypes.Claim) string {
	return fmt.Sprintf("{%v by %v %s %q=%q pn=%v tgt=%v @%s}", c.BlobRef, c.Signer, c.Type, c.Attr, c.Value, c.Permanode, c.Target, c.Date.UTC().Format(time.RFC3339Nano))
}

func claimsStr(cls []camtypes.Claim, err error) string {
	if err != nil {
		return errStr(err)
	}
	s := make([]string, len(cls))
	for i, c := range cls {
		s[i] = claimStr(c)
	}
	sort.Strings(s) // interface.go: "in any order"
	return strings.Join(s, " ")
}

func refSet(m map[blob.Ref]struct{}, err error) string {
	if err != nil {
		return errStr(err)
	}
	if m == nil {
		return "nil"
	}
	s := make([]string, 0, len(m))
	for br := range m {
		s = append(s, br.String())
	}
	sort.Strings(s)
	return "{" + strings.Join(s, " ") + "}"
}

func metaStr(bm camtypes.BlobMeta) string {
	return fmt.Sprintf("%v/%d/%q", bm.Ref, bm.Size, bm.CamliType)
}

func fileInfoStr(fi camtypes.FileInfo, err error) string {
	if err != nil {
		return errStr(err)
	}
	t, mt := "-", "-"
	if fi.Time != nil {
		t = fi.Time.String()
	}
	if fi.ModTime != nil {
		mt = fi.ModTime.String()
	}
	return fmt.Sprintf("name=%q size=%d mime=%q time=%s modtime=%s whole=%v", fi.FileName, fi.Size, fi.MIMEType, t, mt, fi.WholeRef)
}

func pathsStr(ps []*camtypes.Path, err error) string {
	if err != nil {
		return errStr(err)
	}
	s := make([]string, len(ps))
	for i, p := range ps {
		s[i] = fmt.Sprintf("{claim=%v base=%v suffix=%q target=%v @%s}", p.Claim, p.Base, p.Suffix, p.Target, p.ClaimDate.UTC().Format(time.RFC3339Nano))
	}
	sort.Strings(s)
	return strings.Join(s, " ")
}

// observe runs the whole query battery on one index+corpus and returns the
// answers in a fixed order. All values are canonical strings (sets sorted
// where the API promises no order).
func observe(u *universe, x *index.Index, c *index.Corpus) []ob {
	out := make([]ob, 0, len(u.argCache)+16)
	// The battery is a fixed sequence of calls: the argument texts are
	// formatted once per universe and reused by position.
	cached := u.argCache
	add := func(m, v string, kv ...string) {
		i := len(out)
		if i < len(cached) && cached[i].M == m {
			out = append(out, ob{m, cached[i].A, v})
			return
		}
		var sb strings.Builder
		for j := 0; j+1 < len(kv); j += 2 {
			if j > 0 {
				sb.WriteByte(' ')
			}
			if kv[j] != "" {
				sb.WriteString(kv[j])
				sb.WriteByte('=')
			}
			sb.WriteString(kv[j+1])
		}
		out = append(out, ob{m, sb.String(), v})
	}
	x.RLock()
	defer x.RUnlock()

	for ri, br := range u.refs {
		rn := u.rnames[ri]
		bm, err := x.GetBlobMeta(ctxbg, br)
		if err != nil {
			add("Index.GetBlobMeta", errStr(err), "", rn)
		} else {
			add("Index.GetBlobMeta", metaStr(bm), "", rn)
		}
		bm, err = c.GetBlobMeta(ctxbg, br)
		if err != nil {
			add("Corpus.GetBlobMeta", errStr(err), "", rn)
		} else {
			add("Corpus.GetBlobMeta", metaStr(bm), "", rn)
		}
		add("Index.IsDeleted", bstr(x.IsDeleted(br)), "", rn)
		add("Corpus.IsDeleted", bstr(c.IsDeleted(br)), "", rn)

		for _, sg := range u.signers {
			for ai := -1; ai < len(u.attrs); ai++ {
				attr := ""
				if ai >= 0 {
					attr = u.attrs[ai]
				}
				add("Index.AppendClaims", claimsStr(x.AppendClaims(ctxbg, nil, br, sg.id, attr)), "", rn, "signer", sg.name, "attr", attr)
				add("Corpus.AppendClaims", claimsStr(c.AppendClaims(ctxbg, nil, br, sg.id, attr)), "", rn, "signer", sg.name, "attr", attr)
			}
		}
		for _, attr := range u.attrs {
			for ti, at := range u.times {
				for _, sg := range u.signers {
					add("Corpus.PermanodeAttrValue", c.PermanodeAttrValue(br, attr, at, sg.id), "", rn, "attr", attr, "at", u.tnames[ti], "signer", sg.name)
					add("Corpus.AppendPermanodeAttrValues", valsStr(c.AppendPermanodeAttrValues(nil, br, attr, at, sg.id)), "", rn, "attr", attr, "at", u.tnames[ti], "signer", sg.name)
				}
				for _, val := range u.vals {
					add("Corpus.PermanodeHasAttrValue", bstr(c.PermanodeHasAttrValue(br, at, attr, val)), "", rn, "at", u.tnames[ti], "attr", attr, "val", val)
				}
			}
		}
		add("Corpus.PermanodeModtime", tstr(c.PermanodeModtime(br)), "", rn)
		add("Corpus.PermanodeAnyTime", tstr(c.PermanodeAnyTime(br)), "", rn)
		add("Corpus.PermanodeTime", tstr(c.PermanodeTime(br)), "", rn)

		add("Index.GetFileInfo", fileInfoStr(x.GetFileInfo(ctxbg, br)), "", rn)
		add("Corpus.GetFileInfo", fileInfoStr(c.GetFileInfo(ctxbg, br)), "", rn)
		add("Corpus.GetDirChildren", refSet(c.GetDirChildren(ctxbg, br)), "", rn)
		add("Corpus.GetParentDirs", refSet(c.GetParentDirs(ctxbg, br)), "", rn)
		{
			ch := make(chan blob.Ref, 64)
			err := x.GetDirMembers(ctxbg, br, ch, 0)
			var s []string
			for m := range ch {
				s = append(s, m.String())
			}
			sort.Strings(s)
			add("Index.GetDirMembers", errStr(err)+strings.Join(s, " "), "", rn)
		}
		wr, ok := c.GetWholeRef(ctxbg, br)
		add("Corpus.GetWholeRef", wr.String()+" "+bstr(ok), "", rn)
		if ii, err := x.GetImageInfo(ctxbg, br); err != nil {
			add("Index.GetImageInfo", errStr(err), "", rn)
		} else {
			add("Index.GetImageInfo", fmt.Sprintf("%dx%d", ii.Width, ii.Height), "", rn)
		}
		if tags, err := x.GetMediaTags(ctxbg, br); err != nil {
			add("Index.GetMediaTags", errStr(err), "", rn)
		} else {
			var s []string
			for k, v := range tags {
				s = append(s, k+"="+v)
			}
			sort.Strings(s)
			add("Index.GetMediaTags", strings.Join(s, ","), "", rn)
		}
		if loc, err := x.GetFileLocation(ctxbg, br); err != nil {
			add("Index.GetFileLocation", errStr(err), "", rn)
		} else {
			add("Index.GetFileLocation", fmt.Sprintf("%.7f,%.7f", loc.Latitude, loc.Longitude), "", rn)
		}
		if lat, long, ok := c.FileLatLong(br); ok {
			add("Corpus.FileLatLong", fmt.Sprintf("%.7f,%.7f", lat, long), "", rn)
		} else {
			add("Corpus.FileLatLong", "none", "", rn)
		}
		id, err := x.KeyId(ctxbg, br)
		add("Index.KeyId", id+errStr(err), "", rn)
		id, err = c.KeyId(ctxbg, br)
		add("Corpus.KeyId", id+errStr(err), "", rn)

		{
			edges, err := x.EdgesTo(br, nil)
			s := make([]string, len(edges))
			for i, e := range edges {
				s[i] = fmt.Sprintf("{from=%v type=%s title=%q to=%v via=%v}", e.From, e.FromType, e.FromTitle, e.To, e.BlobRef)
			}
			sort.Strings(s)
			add("Index.EdgesTo", errStr(err)+strings.Join(s, " "), "", rn)
		}
		for _, sb := range u.srefs {
			add("Index.PathsOfSignerTarget", pathsStr(x.PathsOfSignerTarget(ctxbg, sb.Ref, br)), "signer", sb.Name, "target", rn)
			for _, suf := range u.set.Suffixes {
				add("Index.PathsLookup", pathsStr(x.PathsLookup(ctxbg, sb.Ref, br, suf)), "signer", sb.Name, "base", rn, "suffix", suf)
				for ti, at := range u.times {
					p, err := x.PathLookup(ctxbg, sb.Ref, br, suf, at)
					v := errStr(err)
					if err == nil {
						v = pathsStr([]*camtypes.Path{p}, nil)
					}
					add("Index.PathLookup", v, "signer", sb.Name, "base", rn, "suffix", suf, "at", u.tnames[ti])
				}
			}
		}
		for ti, at := range u.times {
			var s, sb []string
			c.ForeachClaim(br, at, func(cl *camtypes.Claim) bool { s = append(s, claimStr(*cl)); return true })
			c.ForeachClaimBack(br, at, func(cl *camtypes.Claim) bool { sb = append(sb, claimStr(*cl)); return true })
			sort.Strings(s) // "Iteration is in an undefined order"
			sort.Strings(sb)
			add("Corpus.ForeachClaim", strings.Join(s, " "), "", rn, "at", u.tnames[ti])
			add("Corpus.ForeachClaimBack", strings.Join(sb, " "), "", rn, "at", u.tnames[ti])
		}
		{
			m, err := x.ExistingFileSchemas(br)
			var s []string
			for _, r := range m[br.String()] {
				s = append(s, r.String())
			}
			sort.Strings(s)
			add("Index.ExistingFileSchemas", errStr(err)+strings.Join(s, " "), "", rn)
		}
		{
			v := "none"
			c.EnumerateSingleBlob(func(bm camtypes.BlobMeta) bool { v = metaStr(bm); return true }, br)
			add("Corpus.EnumerateSingleBlob", v, "", rn)
		}
	}

	// per signer: rows + deletes cache
	for _, sb := range u.srefs {
		for _, attr := range u.attrs {
			if !index.IsIndexedAttribute(attr) {
				continue
			}
			for _, val := range u.vals {
				pn, err := x.PermanodeOfSignerAttrValue(ctxbg, sb.Ref, attr, val)
				add("Index.PermanodeOfSignerAttrValue", pn.String()+errStr(err), "signer", sb.Name, "attr", attr, "val", val)
			}
			for ti, at := range u.times {
				for qi := -1; qi < len(u.vals); qi++ {
					q := ""
					if qi >= 0 {
						q = u.vals[qi]
					}
					ch := make(chan blob.Ref, 64)
					err := x.SearchPermanodesWithAttr(ctxbg, ch, &camtypes.PermanodeByAttrRequest{Signer: sb.Ref, Attribute: attr, Query: q, At: at})
					var s []string
					for r := range ch {
						s = append(s, r.String())
					}
					add("Index.SearchPermanodesWithAttr", errStr(err)+strings.Join(s, " "), "signer", sb.Name, "attr", attr, "query", q, "at", u.tnames[ti])
				}
			}
		}
		for ti, at := range u.times {
			ch := make(chan camtypes.RecentPermanode, 64)
			err := x.GetRecentPermanodes(ctxbg, ch, sb.Ref, 50, at)
			var s []string
			for r := range ch {
				s = append(s, fmt.Sprintf("{%v by %v @%s}", r.Permanode, r.Signer, r.LastModTime.UTC().Format(time.RFC3339Nano)))
			}
			add("Index.GetRecentPermanodes", errStr(err)+strings.Join(s, " "), "owner", sb.Name, "before", u.tnames[ti])
		}
	}

	// whole-corpus enumerations
	for _, newest := range []bool{true, false} {
		var s []string
		c.EnumeratePermanodesCreated(func(bm camtypes.BlobMeta) bool { s = append(s, metaStr(bm)); return true }, newest)
		add("Corpus.EnumeratePermanodesCreated", strings.Join(s, " "), "newestFirst", bstr(newest))
	}
	{
		var s []string
		c.EnumeratePermanodesLastModified(func(bm camtypes.BlobMeta) bool { s = append(s, metaStr(bm)); return true })
		add("Corpus.EnumeratePermanodesLastModified", strings.Join(s, " "))
	}
	{
		var s []string
		c.EnumerateBlobMeta(func(bm camtypes.BlobMeta) bool { s = append(s, metaStr(bm)); return true })
		sort.Strings(s) // "undefined order"
		add("Corpus.EnumerateBlobMeta", strings.Join(s, " "))
		s = nil
		err := x.EnumerateBlobMeta(ctxbg, func(bm camtypes.BlobMeta) bool { s = append(s, metaStr(bm)); return true })
		sort.Strings(s)
		add("Index.EnumerateBlobMeta", errStr(err)+strings.Join(s, " "))
	}
	for _, ct := range []schema.CamliType{"", schema.TypePermanode, schema.TypeClaim, schema.TypeFile, schema.TypeDirectory, schema.TypeBytes, schema.TypeStaticSet} {
		var s []string
		c.EnumerateCamliBlobs(ct, func(bm camtypes.BlobMeta) bool { s = append(s, metaStr(bm)); return true })
		sort.Strings(s)
		add("Corpus.EnumerateCamliBlobs", strings.Join(s, " "), "type", string(ct))
	}
	{
		var s []string
		c.EnumeratePermanodesByNodeTypes(func(bm camtypes.BlobMeta) bool { s = append(s, metaStr(bm)); return true }, []string{"", "foursquare.com:checkin"})
		sort.Strings(s)
		add("Corpus.EnumeratePermanodesByNodeTypes", strings.Join(s, " "))
	}
	{
		ok, err := x.HasLegacySHA1()
		add("Index.HasLegacySHA1", bstr(ok)+errStr(err))
	}
	if len(u.argCache) == 0 {
		u.argCache = make([]ob, len(out))
		for i, o := range out {
			u.argCache[i] = ob{M: o.M, A: o.A}
		}
	}
	return out
}

// A diff is one query answered differently by the two sides.
type diff struct {
	M, A        string
	Live, Other string
	i           int // position in the observation vector
}

func diffObs(live, other []ob) ([]diff, error) {
	var out []diff
	if len(live) != len(other) {
		return nil, engineErr{fmt.Errorf("battery length differs: %d vs %d", len(live), len(other))}
	}
	for i := range live {
		if live[i].V == other[i].V {
			continue
		}
		if live[i].M != other[i].M || live[i].A != other[i].A {
			return nil, engineErr{fmt.Errorf("battery misaligned at %d: %s(%s) vs %s(%s)", i, live[i].M, live[i].A, other[i].M, other[i].A)}
		}
		out = append(out, diff{M: live[i].M, A: live[i].A, Live: live[i].V, Other: other[i].V, i: i})
	}
	return out, nil
}

func lookup(obs []ob, d diff) (string, bool) {
	if d.i >= 0 && d.i < len(obs) && obs[d.i].M == d.M && obs[d.i].A == d.A {
		return obs[d.i].V, true
	}
	return "", false
}
