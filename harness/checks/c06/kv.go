package c06

import (
	"fmt"
	"io"
	"os"
	"path/filepath"

	"go4.org/jsonconfig"
	"perkeep.org/pkg/sorted"
	_ "perkeep.org/pkg/sorted/kvfile"
	_ "perkeep.org/pkg/sorted/leveldb"
	_ "perkeep.org/pkg/sorted/sqlite"

	"verif/vk"
)

// kvKind is one sorted.KeyValue implementation backing the index.
type kvKind struct {
	Name string
	typ  string // sorted.NewKeyValue "type"; "" = sorted.NewMemoryKeyValue
}

var kvKinds = []*kvKind{
	{Name: "memory"},
	{Name: "leveldb", typ: "leveldb"},
	{Name: "kvfile", typ: "kv"},
	{Name: "sqlite", typ: "sqlite"},
}

func kindByName(n string) *kvKind {
	for _, k := range kvKinds {
		if k.Name == n {
			return k
		}
	}
	return nil
}

func (k *kvKind) fileBacked() bool { return k.typ != "" }

// store is an open KeyValue and where it lives. raw is the implementation;
// kv is what the index gets: for file-backed kinds a proxy that performs every
// operation on the goroutine outside the synctest bubble (leveldb, kv and
// database/sql keep background goroutines and timers that must not belong to
// the bubble of one history).
type store struct {
	kind *kvKind
	raw  sorted.KeyValue
	kv   sorted.KeyValue
	dir  string // scratch dir of a file-backed store
}

var scratchRoot string

// open opens a store of the kind (dir "" = a fresh scratch directory).
// onSet, if not nil, sees every row written (live side only).
func (k *kvKind) open(dir string, onSet func(k, v string)) (*store, error) {
	if !k.fileBacked() {
		raw := sorted.NewMemoryKeyValue()
		st := &store{kind: k, raw: raw, kv: raw}
		if onSet != nil {
			st.kv = &wrapKV{raw: raw, via: func(f func()) { f() }, onSet: onSet}
		}
		return st, nil
	}
	var st *store
	var err error
	outside(func() {
		if dir == "" {
			if scratchRoot == "" {
				scratchRoot = vk.Scratch("c06")
			}
			if dir, err = os.MkdirTemp(scratchRoot, k.Name); err != nil {
				return
			}
		}
		var raw sorted.KeyValue
		raw, err = sorted.NewKeyValue(jsonconfig.Obj{"type": k.typ, "file": filepath.Join(dir, "index.db")})
		if err != nil {
			err = fmt.Errorf("NewKeyValue(%s): %v", k.typ, err)
			return
		}
		st = &store{kind: k, raw: raw, dir: dir}
		st.kv = &wrapKV{raw: raw, via: outside, onSet: onSet}
	})
	return st, err
}

func (s *store) close() (err error) {
	if c, ok := s.raw.(io.Closer); ok && s.kind.fileBacked() {
		outside(func() { err = c.Close() })
	}
	return err
}

// reopen closes the store and opens the same file again (file-backed kinds).
func (s *store) reopen() (*store, error) {
	if err := s.close(); err != nil {
		return nil, fmt.Errorf("close: %v", err)
	}
	return s.kind.open(s.dir, nil)
}

func (s *store) discard() {
	s.close()
	if s.dir != "" {
		outside(func() { os.RemoveAll(s.dir) })
	}
}

// wrapKV forwards every operation to raw through via and reports rows written.
type wrapKV struct {
	raw   sorted.KeyValue
	via   func(func())
	onSet func(k, v string)
}

func (w *wrapKV) Get(k string) (v string, err error) {
	w.via(func() { v, err = w.raw.Get(k) })
	return
}

func (w *wrapKV) Set(k, v string) (err error) {
	if w.onSet != nil {
		w.onSet(k, v)
	}
	w.via(func() { err = w.raw.Set(k, v) })
	return
}

func (w *wrapKV) Delete(k string) (err error) {
	w.via(func() { err = w.raw.Delete(k) })
	return
}

type wrapBatch struct {
	inner sorted.BatchMutation
	w     *wrapKV
}

func (b *wrapBatch) Set(k, v string) {
	if b.w.onSet != nil {
		b.w.onSet(k, v)
	}
	b.inner.Set(k, v)
}
func (b *wrapBatch) Delete(k string) { b.inner.Delete(k) }

func (w *wrapKV) BeginBatch() sorted.BatchMutation {
	var bm sorted.BatchMutation
	w.via(func() { bm = w.raw.BeginBatch() })
	return &wrapBatch{inner: bm, w: w}
}

func (w *wrapKV) CommitBatch(b sorted.BatchMutation) (err error) {
	wb, ok := b.(*wrapBatch)
	if !ok {
		return fmt.Errorf("c06: foreign batch %T", b)
	}
	w.via(func() { err = w.raw.CommitBatch(wb.inner) })
	return
}

func (w *wrapKV) Find(start, end string) sorted.Iterator {
	var it sorted.Iterator
	w.via(func() { it = w.raw.Find(start, end) })
	return &wrapIter{it: it, via: w.via}
}

func (w *wrapKV) Close() (err error) {
	w.via(func() { err = w.raw.Close() })
	return
}

type wrapIter struct {
	it  sorted.Iterator
	via func(func())
}

func (i *wrapIter) Next() (ok bool) { i.via(func() { ok = i.it.Next() }); return }
func (i *wrapIter) Key() string     { return i.it.Key() }
func (i *wrapIter) KeyBytes() []byte {
	return i.it.KeyBytes()
}
func (i *wrapIter) Value() string { return i.it.Value() }
func (i *wrapIter) ValueBytes() []byte {
	return i.it.ValueBytes()
}
func (i *wrapIter) Close() (err error) { i.via(func() { err = i.it.Close() }); return }

// Stores are opened, reopened and closed, and all their operations run, on
// goroutines outside the synctest bubble of a history: a dispatcher started at
// init spawns one goroutine per operation (an operation may block inside the
// store, e.g. on sqlite's one-iterator gate, until another one finishes).
// Reply channels are made outside the bubble too (a bubbled channel must not
// be touched from outside).
type svcCall struct {
	f     func()
	reply chan struct{}
}

var (
	svcReq    = make(chan svcCall)
	replyPool = make(chan chan struct{}, 256)
)

func init() {
	for i := 0; i < cap(replyPool); i++ {
		replyPool <- make(chan struct{}, 1)
	}
	go func() {
		for c := range svcReq {
			go func() {
				c.f()
				c.reply <- struct{}{}
			}()
		}
	}()
}

func outside(f func()) {
	r := <-replyPool
	svcReq <- svcCall{f, r}
	<-r
	replyPool <- r
}
