package c06

import (
	"fmt"
	"io"
	"os"
	"path/filepath"

	"go4.org/jsonconfig"
	"perkeep.org/pkg/sorted"
	_ "perkeep.org/pkg/sorted/kvfile"
	_ "perkeep.org/pkg/sorted/leveldb"
	_ "perkeep.org/pkg/sorted/sqlite"

	"verif/vk"
)

// kvKind is one sorted.KeyValue implementation backing the index.
type kvKind struct {
	Name string
	typ  string // sorted.NewKeyValue "type"; "" = sorted.NewMemoryKeyValue
}

var kvKinds = []*kvKind{
	{Name: "memory"},
	{Name: "leveldb", typ: "leveldb"},
	{Name: "kvfile", typ: "kv"},
	{Name: "sqlite", typ: "sqlite"},
}

func kindByName(n string) *kvKind {
	for _, k := range kvKinds {
		if k.Name == n {
			return k
		}
	}
	return nil
}

func (k *kvKind) fileBacked() bool { return k.typ != "" }

// store is an open KeyValue and where it lives.
type store struct {
	kind *kvKind
	kv   sorted.KeyValue
	dir  string // scratch dir of a file-backed store
}

var scratchRoot string

func (k *kvKind) open(dir string) (*store, error) {
	if !k.fileBacked() {
		return &store{kind: k, kv: sorted.NewMemoryKeyValue()}, nil
	}
	if dir == "" {
		if scratchRoot == "" {
			scratchRoot = vk.Scratch("c06")
		}
		var err error
		if dir, err = os.MkdirTemp(scratchRoot, k.Name); err != nil {
			return nil, err
		}
	}
	kv, err := sorted.NewKeyValue(jsonconfig.Obj{"type": k.typ, "file": filepath.Join(dir, "index.db")})
	if err != nil {
		return nil, fmt.Errorf("NewKeyValue(%s): %v", k.typ, err)
	}
	return &store{kind: k, kv: kv, dir: dir}, nil
}

func (s *store) close() error {
	if c, ok := s.kv.(io.Closer); ok && s.kind.fileBacked() {
		return c.Close()
	}
	return nil
}

// reopen closes the store and opens the same file again (file-backed kinds).
func (s *store) reopen() (*store, error) {
	if err := s.close(); err != nil {
		return nil, fmt.Errorf("close: %v", err)
	}
	return s.kind.open(s.dir)
}

func (s *store) discard() {
	s.close()
	if s.dir != "" {
		os.RemoveAll(s.dir)
	}
}
