package c06

import (
	"testing"
	"testing/synctest"
)

// TestSpace prints the enumerated space: per set the number of histories per
// tier and the number of answers compared at one comparison point.
func TestSpace(t *testing.T) {
	for _, s := range Sets() {
		u := newUniverse(s)
		n := 0
		synctest.Test(t, func(t *testing.T) {
			l, err := newLive(kvKinds[0], u)
			if err != nil {
				t.Fatal(err)
			}
			n = len(observe(u, l.x.Index, l.corp))
			l.close()
		})
		t.Logf("%-22s blobs=%d quick=%v(%d histories) thorough=%d histories (file-backed: %q, %d) answers/point=%d",
			s.Name, len(s.Blobs), s.Quick, len(s.Histories(false, false)), len(s.Histories(true, false)), s.FileKV, len(s.Histories(true, true)), n)
	}
}
