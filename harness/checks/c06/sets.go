package c06

import (
	"fmt"
	"os"
	"time"

	"perkeep.org/pkg/blob"
	"perkeep.org/pkg/schema"

	"verif/hs"
	"verif/world"
)

// A Set is one small blob set: every arrival permutation of its blobs (and
// optionally every single re-delivery) is one history.
type Set struct {
	Name  string
	Blobs []hs.Blob
	// query universe beyond the blob refs themselves
	Attrs    []string // attribute names asked for (an unknown one is added)
	Vals     []string // values asked for in PermanodeHasAttrValue / PermanodeOfSignerAttrValue
	Suffixes []string // camliPath suffixes asked for in PathsLookup
	MaxRank  int      // claims are dated world.T(1..MaxRank)

	Quick  bool   // part of the quick tier on the memory KV
	FileKV string // "", "quick" or "thorough": part of the reduced space of the file-backed KVs from that tier on
	// Dups: which single re-deliveries are added to every permutation:
	// "all" = blob at position i delivered again after every position j>=i
	// (sets of up to 4 blobs; "all" on a larger set means "ends"),
	// "ends" = only immediately after itself and at the very end, "" = none.
	DupsQuick, DupsThorough string
}

var unknownRef = hs.Mk("unknown", []byte("a blob nobody ever delivers"), "").Ref

const unknownKeyID = "DEADBEEF00C0FFEE"

func bytesBlob(name string, parts ...hs.Blob) hs.Blob {
	bb := schema.NewBuilder()
	bb.SetType(schema.TypeBytes)
	var bp []schema.BytesPart
	var size int64
	for _, p := range parts {
		bp = append(bp, schema.BytesPart{Size: uint64(len(p.Data)), BlobRef: p.Ref})
		size += int64(len(p.Data))
	}
	if err := bb.PopulateParts(size, bp); err != nil {
		panic(err)
	}
	j, err := bb.JSON()
	if err != nil {
		panic(err)
	}
	return hs.Mk(name, []byte(j), "")
}

// fileOver makes a file whose parts are (bytesRef over sub..., then direct chunks...).
func fileOver(name, fileName string, modTime time.Time, sub hs.Blob, subSize int, chunks ...hs.Blob) hs.Blob {
	m := schema.NewFileMap(fileName)
	parts := []schema.BytesPart{{Size: uint64(subSize), BytesRef: sub.Ref}}
	size := int64(subSize)
	for _, c := range chunks {
		parts = append(parts, schema.BytesPart{Size: uint64(len(c.Data)), BlobRef: c.Ref})
		size += int64(len(c.Data))
	}
	if err := m.PopulateParts(size, parts); err != nil {
		panic(err)
	}
	if !modTime.IsZero() {
		m.SetModTime(modTime)
	}
	j, err := m.JSON()
	if err != nil {
		panic(err)
	}
	return hs.Mk(name, []byte(j), "")
}

func testdata(rel string) []byte {
	b, err := os.ReadFile(world.Repo() + "/" + rel)
	if err != nil {
		panic(fmt.Sprintf("c06: test data %s: %v", rel, err))
	}
	return b
}

func refStr(b hs.Blob) string { return b.Ref.String() }

// Sets returns the blob sets of the tier.
func Sets() []*Set {
	A, B := world.A(), world.B()
	T := world.T
	var out []*Set
	add := func(s *Set) {
		if len(s.Blobs) > 6 {
			panic("c06: set " + s.Name + " has more than 6 blobs")
		}
		seen := map[blob.Ref]bool{}
		for _, b := range s.Blobs {
			if seen[b.Ref] {
				panic("c06: set " + s.Name + " has the same blob twice: " + b.Name)
			}
			seen[b.Ref] = true
		}
		out = append(out, s)
	}

	pn := A.Permanode("pn")
	pn2 := A.Permanode("pn2")
	setTitle := A.SetAttr("set-title", pn.Ref, "title", "x", T(1))

	// 1. {pubkey, permanode, set-attr claim}
	add(&Set{Name: "basic", Blobs: []hs.Blob{A.Pub, pn, setTitle},
		Attrs: []string{"title"}, Vals: []string{"x"}, MaxRank: 1,
		Quick: true, FileKV: "quick", DupsQuick: "all", DupsThorough: "all"})

	// 1b. a camliNodeType claim (feeds the by-node-type permanode sets of the corpus)
	setType := A.SetAttr("set-nodetype", pn.Ref, "camliNodeType", "foursquare.com:checkin", T(1))
	add(&Set{Name: "nodetype", Blobs: []hs.Blob{A.Pub, pn, setType},
		Attrs: []string{"camliNodeType"}, Vals: []string{"foursquare.com:checkin"}, MaxRank: 1,
		Quick: true, FileKV: "quick", DupsQuick: "none", DupsThorough: "all"})

	// 2. + delete(permanode)
	delPn := A.Delete("del-pn", pn.Ref, T(2))
	add(&Set{Name: "delete-permanode", Blobs: []hs.Blob{A.Pub, pn, setTitle, delPn},
		Attrs: []string{"title"}, Vals: []string{"x"}, MaxRank: 2,
		Quick: true, FileKV: "quick", DupsQuick: "all", DupsThorough: "all"})

	// 3. + delete(claim) + delete(delete)
	delClaim := A.Delete("del-claim", setTitle.Ref, T(2))
	undel := A.Delete("del-del-claim", delClaim.Ref, T(3))
	add(&Set{Name: "delete-claim-undelete", Blobs: []hs.Blob{A.Pub, pn, setTitle, delClaim, undel},
		Attrs: []string{"title"}, Vals: []string{"x"}, MaxRank: 3,
		Quick: true, FileKV: "thorough", DupsQuick: "ends", DupsThorough: "all"})

	// 3a. a three-level chain on the permanode (delete, undelete, delete again), with the blobs
	// chosen so that their refs sort d1 < pn < d2: loaders that walk the "deleted|" rows in
	// target order then meet pn's row before they know that d1 is itself deleted
	{
		var cp, c1, c2, c3 hs.Blob
		for i := 0; ; i++ {
			cp = A.Permanode(fmt.Sprintf("chain-pn-%d", i))
			c1 = A.Delete("chain-del1", cp.Ref, T(2))
			c2 = A.Delete("chain-del2", c1.Ref, T(3))
			if c1.Ref.Less(cp.Ref) && cp.Ref.Less(c2.Ref) {
				c3 = A.Delete("chain-del3", c2.Ref, T(4))
				break
			}
		}
		cp.Name = "chain-pn"
		add(&Set{Name: "delete-chain3-ordered", Blobs: []hs.Blob{A.Pub, cp, c1, c2, c3},
			MaxRank: 4,
			Quick: true, FileKV: "thorough", DupsQuick: "none", DupsThorough: "ends"})
	}

	// 3b. everything about deletion at once (6 blobs)
	add(&Set{Name: "delete-all-kinds", Blobs: []hs.Blob{A.Pub, pn, setTitle, delPn, delClaim, undel},
		Attrs: []string{"title"}, Vals: []string{"x"}, MaxRank: 3,
		Quick: false, DupsThorough: ""})

	// 3c. two deleters of one claim, one of them undone: deleted iff SOME deleter is not itself deleted
	delClaim2 := A.Delete("del-claim-again", setTitle.Ref, T(3))
	undel4 := A.Delete("del-del-claim", delClaim.Ref, T(4))
	add(&Set{Name: "two-deleters", Blobs: []hs.Blob{A.Pub, pn, setTitle, delClaim, delClaim2, undel4},
		Attrs: []string{"title"}, Vals: []string{"x"}, MaxRank: 4,
		Quick: true, DupsThorough: ""})

	// 3c'. the same two deleters, but the NEWER one is undone: the older deleter alone must keep the
	// claim deleted, also when the newer deleter arrived first (a deleter list kept most-recent-first
	// must not drop an older deleter because a newer one is already known).
	undelNewer := A.Delete("del-del-claim-again", delClaim2.Ref, T(4))
	add(&Set{Name: "two-deleters-newer-undone", Blobs: []hs.Blob{A.Pub, pn, setTitle, delClaim, delClaim2, undelNewer},
		Attrs: []string{"title"}, Vals: []string{"x"}, MaxRank: 4,
		Quick: true, DupsThorough: ""})

	// 3d. a delete claim of the permanode DATED BETWEEN (or before) two attribute claims:
	// delete claims of a permanode live in its claim list, which must stay sorted by date
	// whatever the arrival order (the attribute readers trust the last claim to be the newest).
	titleOne := A.SetAttr("set-title-one", pn.Ref, "title", "one", T(1))
	titleTwo := A.SetAttr("set-title-two", pn.Ref, "title", "two", T(3))
	delPnMid := A.Delete("del-pn-mid", pn.Ref, T(2))
	add(&Set{Name: "delete-dated-between", Blobs: []hs.Blob{A.Pub, pn, titleOne, titleTwo, delPnMid},
		Attrs: []string{"title"}, Vals: []string{"one", "two"}, MaxRank: 3,
		Quick: true, DupsQuick: "", DupsThorough: "ends"})
	titleOne2 := A.SetAttr("set-title-one", pn.Ref, "title", "one", T(2))
	delPnEarly := A.Delete("del-pn-early", pn.Ref, T(1))
	undelEarly := A.Delete("del-del-pn-early", delPnEarly.Ref, T(4))
	add(&Set{Name: "delete-dated-before", Blobs: []hs.Blob{A.Pub, pn, titleOne2, titleTwo, delPnEarly, undelEarly},
		Attrs: []string{"title"}, Vals: []string{"one", "two"}, MaxRank: 4,
		Quick: false, DupsThorough: ""})

	// 4. attribute history on one permanode arriving in any date order (incremental
	// attribute cache vs sort at load)
	addA := A.AddAttr("add-tag-a", pn.Ref, "tag", "a", T(1))
	addB := A.AddAttr("add-tag-b", pn.Ref, "tag", "b", T(2))
	delA := A.DelAttr("del-tag-a", pn.Ref, "tag", "a", T(3))
	setC := A.SetAttr("set-tag-c", pn.Ref, "tag", "c", T(4))
	add(&Set{Name: "attr-history", Blobs: []hs.Blob{A.Pub, pn, addA, addB, delA, setC},
		Attrs: []string{"tag"}, Vals: []string{"a", "b", "c"}, MaxRank: 4,
		Quick: false, DupsThorough: ""})

	// 5. camliPath claim + target permanode (+ delete of the claim)
	path := A.SetAttr("set-path", pn.Ref, "camliPath:foo", pn2.Ref.String(), T(1))
	delPath := A.Delete("del-path", path.Ref, T(2))
	add(&Set{Name: "camlipath", Blobs: []hs.Blob{A.Pub, pn, pn2, path, delPath},
		Attrs: []string{"camliPath:foo"}, Vals: []string{refStr(pn2)}, Suffixes: []string{"foo"}, MaxRank: 2,
		Quick: true, FileKV: "thorough", DupsQuick: "", DupsThorough: "all"})

	// 6. camliMember claim + member (+ delete of the parent)
	member := A.AddAttr("add-member", pn.Ref, "camliMember", pn2.Ref.String(), T(1))
	add(&Set{Name: "camlimember", Blobs: []hs.Blob{A.Pub, pn, pn2, member, delPn},
		Attrs: []string{"camliMember"}, Vals: []string{refStr(pn2)}, MaxRank: 2,
		Quick: true, DupsQuick: "", DupsThorough: "all"})

	// 7. file with a two-level bytes tree
	c1 := hs.Mk("chunk1", []byte("first chunk of the file, "), "")
	c2 := hs.Mk("chunk2", []byte("second chunk under the bytes blob, "), "")
	c3 := hs.Mk("chunk3", []byte("third chunk directly under the file.\n"), "")
	bytesB := bytesBlob("bytes", c1, c2)
	file := fileOver("file", "tree.txt", time.Unix(1300000000, 0).UTC(), bytesB, len(c1.Data)+len(c2.Data), c3)
	add(&Set{Name: "file-tree", Blobs: []hs.Blob{c1, c2, c3, bytesB, file},
		MaxRank: 1, Quick: true, FileKV: "quick", DupsQuick: "", DupsThorough: "all"})

	// 8. permanode whose camliContent is a file (PermanodeTime / creation order depend on file rows)
	small := hs.Mk("content-chunk", []byte("content of a small file\n"), "")
	sfile := world.File("small-file", "small.txt", time.Unix(1200000000, 0).UTC(), small)
	content := A.SetAttr("set-content", pn.Ref, "camliContent", sfile.Ref.String(), T(1))
	title2 := A.SetAttr("set-title-pn2", pn2.Ref, "title", "y", T(2))
	add(&Set{Name: "camlicontent", Blobs: []hs.Blob{A.Pub, pn, content, sfile, small, pn2},
		Attrs: []string{"camliContent", "title"}, Vals: []string{refStr(sfile)}, MaxRank: 2,
		Quick: false, DupsThorough: ""})
	// Two permanodes whose creation order flips when p1's camliContent file becomes
	// known: without the file p1 is dated by its camliContent claim (t1 < t2 of pn2's
	// claim), with it by the file's modtime (2014, after t2). The file has no parts, so
	// it is indexed as soon as it arrives; the claim may be indexed long before it.
	lateFile := world.File("late-file", "late.txt", time.Unix(1400000000, 0).UTC())
	contentLate := A.SetAttr("set-content-late", pn.Ref, "camliContent", lateFile.Ref.String(), T(1))
	add(&Set{Name: "two-permanodes-order", Blobs: []hs.Blob{A.Pub, pn, pn2, contentLate, lateFile, title2},
		Attrs: []string{"camliContent", "title"}, Vals: []string{refStr(lateFile), "y"}, MaxRank: 2,
		Quick: true, DupsThorough: "ends"})
	add(&Set{Name: "camlicontent-small", Blobs: []hs.Blob{A.Pub, pn, content, sfile, small},
		Attrs: []string{"camliContent"}, Vals: []string{refStr(sfile)}, MaxRank: 1,
		Quick: true, DupsQuick: "", DupsThorough: "all"})

	// 9. directory + static-set + file
	sset := world.StaticSet("static-set", sfile.Ref)
	dir := world.Dir("dir", "somedir", sset.Ref)
	add(&Set{Name: "directory", Blobs: []hs.Blob{dir, sset, sfile, small},
		MaxRank: 1, Quick: true, FileKV: "thorough", DupsQuick: "all", DupsThorough: "all"})

	// 10. a set whose public key never arrives: B's permanode and claim wait
	// forever; A's claim on B's permanode is indexed; A's delete of B's
	// permanode waits for its target forever.
	pnB := B.Permanode("pn-of-B")
	bTitle := B.SetAttr("B-set-title", pnB.Ref, "title", "b", T(1))
	aTag := A.SetAttr("A-set-tag-on-B", pnB.Ref, "tag", "a", T(2))
	aDelB := A.Delete("A-del-pn-of-B", pnB.Ref, T(3))
	add(&Set{Name: "pubkey-never-arrives", Blobs: []hs.Blob{A.Pub, pnB, bTitle, aTag, aDelB},
		Attrs: []string{"title", "tag"}, Vals: []string{"a", "b"}, MaxRank: 3,
		Quick: true, DupsQuick: "", DupsThorough: "all"})

	// 11. an opaque blob, and a delete claim aimed at it (not a deletable target)
	opaque := hs.Mk("opaque", []byte("just some bytes, not JSON"), "")
	delOpaque := A.Delete("del-opaque", opaque.Ref, T(1))
	add(&Set{Name: "opaque", Blobs: []hs.Blob{A.Pub, opaque, delOpaque},
		MaxRank: 1, Quick: true, FileKV: "quick", DupsQuick: "all", DupsThorough: "all"})

	// 12. a share claim
	share := A.Share("share", pn.Ref, true, T(1), time.Time{})
	add(&Set{Name: "share", Blobs: []hs.Blob{A.Pub, pn, share, opaque},
		MaxRank: 1, Quick: true, DupsQuick: "all", DupsThorough: "all"})

	// 13. two signers
	bSet := B.SetAttr("B-set-title", pn.Ref, "title", "fromB", T(2))
	bDelA := B.Delete("B-del-A-claim", setTitle.Ref, T(3))
	add(&Set{Name: "two-signers", Blobs: []hs.Blob{A.Pub, B.Pub, pn, setTitle, bSet, bDelA},
		Attrs: []string{"title"}, Vals: []string{"x", "fromB"}, MaxRank: 3,
		Quick: true, DupsThorough: ""})

	// 14. media files: image size, EXIF GPS, media tags (single-chunk files)
	jpg := hs.Mk("jpg-chunk", testdata("pkg/search/testdata/dude-gps.jpg"), "")
	jpgFile := world.File("jpg-file", "dude-gps.jpg", time.Time{}, jpg)
	mp3 := hs.Mk("mp3-chunk", testdata("pkg/index/indextest/testdata/0s.mp3"), "")
	mp3File := world.File("mp3-file", "0s.mp3", time.Unix(1250000000, 0).UTC(), mp3)
	add(&Set{Name: "media", Blobs: []hs.Blob{jpg, jpgFile, mp3, mp3File},
		MaxRank: 1, Quick: true, FileKV: "thorough", DupsQuick: "ends", DupsThorough: "all"})

	return out
}

// perms returns all permutations of 0..n-1 in lexicographic order.
func perms(n int) [][]int {
	var out [][]int
	cur := make([]int, 0, n)
	used := make([]bool, n)
	var rec func()
	rec = func() {
		if len(cur) == n {
			out = append(out, append([]int(nil), cur...))
			return
		}
		for i := 0; i < n; i++ {
			if !used[i] {
				used[i] = true
				cur = append(cur, i)
				rec()
				cur = cur[:len(cur)-1]
				used[i] = false
			}
		}
	}
	rec()
	return out
}

// withDups returns the single-re-delivery variants of permutation p.
func withDups(p []int, mode string) [][]int {
	if mode == "" {
		return nil
	}
	n := len(p)
	var out [][]int
	for i := 0; i < n; i++ {
		for j := i; j < n; j++ {
			if mode == "ends" && j != i && j != n-1 {
				continue
			}
			h := make([]int, 0, n+1)
			h = append(h, p[:j+1]...)
			h = append(h, p[i])
			h = append(h, p[j+1:]...)
			out = append(out, h)
		}
	}
	return out
}

// Histories returns every arrival history of the set for the tier: all
// permutations, then all single re-deliveries.
func (s *Set) Histories(thorough, fileBacked bool) [][]int {
	mode := s.DupsQuick
	if thorough {
		mode = s.DupsThorough
	}
	if mode == "all" && len(s.Blobs) >= 5 {
		mode = "ends" // every single re-delivery only for sets of up to 4 blobs
	}
	var out [][]int
	ps := perms(len(s.Blobs))
	out = append(out, ps...)
	for _, p := range ps {
		out = append(out, withDups(p, mode)...)
	}
	return out
}
