#!/bin/bash
# Run once after a fresh restore, offline: pre-builds every check binary so the
# Go build cache is warm. Everything is rebuilt from /repo's working tree by
# ./check at run time anyway.
set -e
cd "$(dirname "$0")"
export GOFLAGS=-mod=mod GOPROXY=off GOTOOLCHAIN=auto
unset GOSUMDB
mkdir -p .build evidence
./check --build-all
