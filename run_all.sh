#!/bin/bash
# runs every accepted check's tier ($1 = quick|thorough) sequentially; prints rc and wall per check
cd /verif
tier=${1:-quick}
for id in $(python3 -c "import json; print(' '.join(json.load(open('accepted.json'))))"); do
  t0=$(date +%s); out=$(./check $id $tier 2>&1); rc=$?; t1=$(date +%s)
  echo "$id rc=$rc wall=$((t1-t0))s $(echo "$out" | grep "^$id $tier:" | sed 's/.*executions=/executions=/')"
done
