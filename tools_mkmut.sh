#!/bin/bash
# usage: tools_mkmut.sh <name> <file-in-repo> <python-expr old> <new>   -- creates mutants/<name>.diff from a one-replacement edit
set -e
name=$1; file=$2; old=$3; new=$4
cd /repo
python3 - "$file" "$old" "$new" <<'PY'
import sys
p,old,new=sys.argv[1:4]
s=open(p).read()
assert s.count(old)>=1, "pattern not found: "+old
open(p,'w').write(s.replace(old,new,1))
PY
git diff > /verif/mutants/$name.diff
git checkout -- .
echo "wrote /verif/mutants/$name.diff"
