#!/bin/bash
# usage: tools_mkmut.sh <CNN-name> <file-relative-to-/repo> <old text> <new text>
# Writes mutants/<CNN-name>.diff (a -p1 diff against /repo) from one textual replacement. /repo is not touched.
set -e
name=$1; file=$2; old=$3; new=$4
t=$(mktemp -d /dev/shm/mkmut.XXXX)
mkdir -p $t/a/$(dirname $file) $t/b/$(dirname $file)
cp /repo/$file $t/a/$file
python3 - "$t/a/$file" "$t/b/$file" "$old" "$new" <<'PY'
import sys
src,dst,old,new=sys.argv[1:5]
s=open(src).read()
assert s.count(old)>=1, "pattern not found: "+old
open(dst,'w').write(s.replace(old,new,1))
PY
(cd $t && diff -u a/$file b/$file > /verif/mutants/$name.diff || true)
rm -rf $t
echo "wrote /verif/mutants/$name.diff"
