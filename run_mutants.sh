#!/bin/bash
# usage: run_mutants.sh [pattern]  -- applies each mutants/<ID>-*.diff to /repo, runs ./check <ID> quick, expects exit 1, reverts.
cd /verif
pat=${1:-}
for d in mutants/*${pat}*.diff; do
  id=$(basename $d | cut -d- -f1)
  if ! git -C /repo apply --check $PWD/$d 2>/dev/null; then echo "SKIP $d (does not apply)"; continue; fi
  git -C /repo apply $PWD/$d
  out=$(./check $id quick 2>/dev/null); rc=$?
  git -C /repo checkout -- .
  if [ $rc -eq 1 ]; then echo "CAUGHT $d: $(echo "$out" | grep -m1 signature)"; else echo "MISSED $d (rc=$rc)"; fi
done
