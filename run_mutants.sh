#!/bin/bash
# usage: run_mutants.sh [pattern]
# Runs ./check <ID> quick with each mutants/<ID>-*.diff applied through the build overlay (VERIF_MUTANT);
# /repo itself is never modified. Expects exit 1 (CAUGHT).
cd /verif
pat=${1:-}
for d in mutants/*${pat}*.diff; do
  id=$(basename $d | cut -d- -f1)
  out=$(VERIF_MUTANT=$PWD/$d VERIF_NO_EVIDENCE=1 ./check $id quick 2>/dev/null); rc=$?
  if [ $rc -eq 1 ]; then echo "CAUGHT $d: $(echo "$out" | grep -m1 signature)"; else echo "MISSED $d (rc=$rc)"; fi
done
