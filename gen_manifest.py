#!/usr/bin/env python3
"""Regenerates MANIFEST.json from checks.json + manifest_meta.json (texts per property)."""
import json, os, subprocess
V = os.path.dirname(os.path.abspath(__file__))
accepted = json.load(open(os.path.join(V, "accepted.json")))
conf = {}
base = os.path.join(V, "harness", "checks")
for d in sorted(os.listdir(base)):
    p = os.path.join(base, d, "check.json")
    if os.path.exists(p):
        c = json.load(open(p))
        if c.get("manifest") and not c.get("disabled") and c["id"] in accepted:
            conf[c["id"]] = c
meta = json.load(open(os.path.join(V, "manifest_meta.json")))
props = [json.loads(l)["id"] for l in open(os.path.join(V, "properties.jsonl"))]
checks = []
for cid in props:
    if cid not in conf:
        continue
    m = conf[cid]["manifest"]
    checks.append({
        "property_id": cid,
        "quick_cmd": "./check %s quick" % cid,
        "thorough_cmd": "./check %s thorough" % cid,
        "evidence_file": "evidence/%s.json" % cid,
        "replay_cmd_template": "./check %s --replay {path}" % cid,
        "engine": m["engine"],
        "level_claimed": {"category": conf[cid].get("level", "model_checking"), "text": m["text"], "design_ref": m.get("design_ref", "")},
        "level_note": m["note"],
        "technique": m["technique"],
    })
na = [{"property_id": p, "reason": meta["not_applicable"].get(p, "check not built yet in this round; see DESIGN.md §6 for the plan")} for p in props if p not in [c["property_id"] for c in checks]]
eng = {}
for c in checks:
    eng.setdefault(c["engine"], []).append(c["property_id"])
engines = [{"name": k, "path": meta["engine_paths"].get(k.split()[0], "harness"), "serves_properties": v, "kind_free_text": meta["engine_kinds"].get(k.split()[0], "")} for k, v in sorted(eng.items())]
log = subprocess.run(["git", "-C", "/repo", "log", "--format=%h %s"], stdout=subprocess.PIPE, text=True).stdout.splitlines()
meta["hooks"]["source_commits"] = [l.split()[0] for l in log if l.split(" ", 1)[1].startswith("verif hook")]
man = {
    "version": 1,
    "setup_cmd": "./setup.sh",
    "hooks": meta["hooks"],
    "engines": engines,
    "checks": checks,
    "notes": meta["notes"],
    "not_applicable": na,
}
json.dump(man, open(os.path.join(V, "MANIFEST.json"), "w"), indent=1)
print("MANIFEST.json: %d checks, %d not_applicable" % (len(checks), len(na)))
